//@ include-into src/structures/paging/mapper/recursive_page_table.rs
//
// C01 / C02 / C09 / C11 / C20 step harnesses for the operations of RecursivePageTable that
// c01_recursive_step.rs does not cover: `map_to_with_table_flags`, `unmap`, `update_flags`,
// `translate_page` for Size2MiB and Size1GiB, and `set_flags_p4_entry` / `set_flags_p3_entry` /
// `set_flags_p2_entry` for all three sizes. Same 7-table pool, oracle walker, shapes, dictated
// post-state, `each!` clause evaluation and software MMU (`mmu_resolve` behind the stub of
// `VirtAddr::as_mut_ptr`, recursive level-4 slot 300) as c01_recursive_step.rs; read its header,
// c01_pool.rs and lib/C01_NOTES.md (PART B, PART C) first. Notes: lib/C01_RECURSIVE_HUGE_NOTES.md.
// One difference: an address that does not resolve to a page table is answered with a TRAP TABLE
// instead of the NULL pointer (see `mmu_trap_as_mut_ptr` below), so that such an access fails the
// NAMED clauses instead of only Kani's unnamed pointer check.
//
// Clause names are those of the MappedPageTable steps of the same operation (c01_step_map.rs,
// c01_step_unmap.rs, c01_step_flags.rs, c01_step_read.rs) with the item prefix `recursive_`, so
// that the same defect carries the same clause name for both mappers. One clause is specific to
// the recursive mapper: `huge_parent_is_reported_not_walked` (as in c01_recursive_step.rs): the
// page lies inside a LARGER huge page and the call must say ParentEntryHugePage; a recursive
// mapper that does not test HUGE_PAGE on the parent dereferences the next recursive address,
// which the MMU resolves THROUGH the huge leaf into its data frame.
// `translate(probe)` after a mutating call is not repeated (as in c01_recursive_step.rs).
//
// C20 ("the addresses it uses to reach the page's level-3, level-2 and level-1 tables are the
// recursive index repeated three, two and one times followed by the page's upper indices"):
// every harness of an operation that dereferences a recursive address also carries
// `C20.recursive_<op>_<size>.uses_recursive_addresses_of_the_page`. The software MMU resolves
// whatever address the mapper computed by the hardware walk from CR3; the operation then reports
// the documented outcome, leaves exactly the dictated post-state (read-only operations: returns
// exactly what the dictated tables hold) and touches nothing that is not a page table iff that
// address led to the page's own level-3 / level-2 table. The index tuples are pairwise distinct
// and differ from the recursive index, so every other arrangement of (R, R, R, p4), (R, R, p4, p3)
// lands in a different table or in no table.
//
// Known-finding harnesses (a success in a state where no such mapping exists; a parent-flag call
// on an entry that is itself a huge leaf) fail with ONE named clause; the remaining clauses are
// then evaluated for the required outcome only (`bogus`). A walk through a huge parent (repaired in
// /repo by 22293bc) is attributed the same way, except that `no_access_outside_page_tables` is never
// masked: it is a C09 violation of its own.
// `unmap` has no such finding, so none of its clauses is masked.

#[cfg(kani)]
mod verif_c01_recursive_step_huge {
    use super::super::mapped_page_table::verif_c01_pool::*;
    use super::*;

    /// the recursive level-4 index used by all harnesses (not part of any index tuple, not a
    /// neighbour slot); same value as in c01_recursive_step.rs
    const R: usize = 300;

    fn install_recursive_entry(pool: &Pool) {
        pool.wr(0, R, pool.f[0] | P | RW);
    }
    /// canonical address outside the recursive window (which shows the tables themselves)
    fn any_probe() -> u64 {
        let v = any_canonical();
        kani::assume(idx_of(v).0[0] != R);
        v
    }

    // ---- the trap table: what a recursive address reaches when it does NOT resolve to a page table
    //
    // `mmu_as_mut_ptr` of c01_pool.rs answers such an address with the NULL pointer. Kani then
    // reports the unnamed check "null reference produced" and CUTS the path there (its checks are
    // assert + assume), so the named clauses `no_access_outside_page_tables` and
    // `uses_recursive_addresses_of_the_page` are never reached on that path: a mutant that computes
    // a wrong recursive address was caught by the unnamed check only (measured: p2_page with swapped
    // indices, p3_page with the recursive index twice). Here the same software MMU (`mmu_resolve`,
    // unchanged: hardware walk from CR3, `ghost().outside` counted) hands out, instead of NULL, an
    // eighth table object that stands for "the data frame / whatever the address reached": symbolic
    // words at the slots of the index tuple (a data frame holds arbitrary data), zero elsewhere.
    // Execution continues as on a machine, and the NAMED clauses fail.
    static mut TRAP_TABLE: *mut PageTable = core::ptr::null_mut();

    fn install_trap(t: *mut PageTable, ix: &Idx) {
        let mut l = 0;
        while l < 4 {
            unsafe { (&mut *t)[ix.0[l]] = entry_from(kani::any()) };
            l += 1;
        }
        unsafe { TRAP_TABLE = t };
    }
    /// Declares the trap table as a separate local of the calling block (as mk_pool! does).
    macro_rules! mk_trap {
        ($ix:expr) => {
            let mut trap_table = PageTable::new();
            install_trap(&mut trap_table as *mut PageTable, $ix);
        };
    }
    /// stub of `VirtAddr::as_mut_ptr` in every harness of this file
    fn mmu_trap_as_mut_ptr<T>(this: VirtAddr) -> *mut T {
        let p = mmu_resolve(this.as_u64());
        if p.is_null() {
            (unsafe { TRAP_TABLE }) as *mut T
        } else {
            p as *mut T
        }
    }

    const OK: u8 = 0;
    const E_NOT_MAPPED: u8 = 1;
    const E_PARENT_HUGE: u8 = 2;
    /// the leaf slot holds a table pointer: some Err, the documentation does not say which
    const E_NO_SUCH_MAPPING: u8 = 3;
    /// the leaf slot holds P | PS with a frame address that is not aligned to the page size
    const E_INVALID_FRAME: u8 = 4;

    /// Documented outcome of unmap / update_flags / translate_page for a page whose leaf entry is
    /// at level `l` (same model as c01_step_unmap.rs / c01_step_read.rs).
    fn model_outcome(sh: Shape, pre: &Pre, l: usize) -> u8 {
        match model_reach(sh, pre, l) {
            NOT_MAPPED_ABOVE => E_NOT_MAPPED,
            HUGE_ABOVE => E_PARENT_HUGE,
            _ => match entry_kind(sh, pre, l) {
                E_ABSENT => E_NOT_MAPPED,
                E_LEAF => OK,
                E_MISALIGNED => E_INVALID_FRAME,
                _ => E_NO_SUCH_MAPPING,
            },
        }
    }
    /// Documented outcome of set_flags_p<N>_entry, `n` = level index of that entry (P4 = 0)
    /// (same model as c01_step_flags.rs).
    fn model_outcome_flags(sh: Shape, pre: &Pre, n: usize) -> u8 {
        match model_reach(sh, pre, n) {
            NOT_MAPPED_ABOVE => E_NOT_MAPPED,
            HUGE_ABOVE => E_PARENT_HUGE,
            _ => match entry_kind(sh, pre, n) {
                E_ABSENT => E_NOT_MAPPED,
                E_TABLE => OK,
                // the entry is itself a huge leaf: the page is part of a huge page
                _ => E_PARENT_HUGE,
            },
        }
    }

    macro_rules! ob {
        ($prop:literal, $op:literal, $sz:literal, $shape:literal, $clause:literal) => {
            concat!($prop, ".recursive_", $op, "_", $sz, ".shape_", $shape, ".", $clause)
        };
    }
    macro_rules! c20 {
        ($op:literal, $sz:literal) => {
            concat!(
                "C20.recursive_",
                $op,
                "_",
                $sz,
                ".uses_recursive_addresses_of_the_page: the recursive addresses the call dereferenced resolved (hardware walk from CR3) to the page's own level-3 / level-2 tables: documented outcome, exactly the dictated post-state, no access outside the page tables"
            )
        };
    }

    macro_rules! rec_map_to_step {
        ($S:ty, $sz:literal, $shape:literal, $SH:expr, $ix:expr) => {{
            let ix: Idx = $ix;
            let sh: Shape = $SH;
            mk_pool!(pool);
            install_recursive_entry(&pool);
            mk_trap!(&ix);
            let pre = build_path(&pool, &ix, sh);
            add_background(&pool, &ix);
            add_garbage(&pool, &ix);
            let page: Page<$S> = page_of::<$S>(&ix);
            let frame: PhysFrame<$S> = any_frame::<$S>();
            let flags = any_leaf_flags();
            let pf = any_parent_flags();
            let mut alloc = any_sched(&pool);
            let sched = alloc.ok;
            let bytes = <$S as Sz>::BYTES;
            let (inside, jx) = any_inside::<$S>(&ix);
            let probe = any_probe();
            let probe_in_page = probe & !(bytes - 1) == page.start_address().as_u64();
            let w_in_pre = hw_walk_ix(&pool, &jx, inside);
            let w_pr_pre = hw_walk(&pool, probe);
            kani::assume(w_in_pre.kind != MALFORMED && w_pr_pre.kind != MALFORMED);
            let (fk, fs, f_pre) = any_slot(&pool);

            let mut mapper = unsafe { RecursivePageTable::new_unchecked(&mut *pool.p[0], PageTableIndex::new(R as u16)) };
            let res = unsafe { Mapper::<$S>::map_to_with_table_flags(&mut mapper, page, frame, flags, pf, &mut alloc) };

            let leaf_word = frame.start_address().as_u64() | flags.bits() | <$S as Sz>::LEAF_EXTRA;
            let mut m = model_map_to(&pool, &ix, sh, &pre, <$S as Sz>::L, leaf_word, pf.bits(), P | RW, &sched);
            let w_in = hw_walk_ix(&pool, &jx, inside);
            let w_pr = hw_walk(&pool, probe);
            let f_post = pool.rd(fk, fs);

            // ---- every clause is evaluated first, then each is checked on its own path (each!)
            let ok = res.is_ok();
            let outcome_ok = match &res {
                Ok(_) => m.outcome == M_OK,
                Err(MapToError::FrameAllocationFailed) => m.outcome == M_ERR_ALLOC,
                Err(MapToError::ParentEntryHugePage) => m.outcome == M_ERR_HUGE,
                Err(MapToError::PageAlreadyMapped(_)) => m.outcome == M_ERR_ALREADY,
            };
            let token_ok = match &res {
                Ok(token) => token.page() == page,
                _ => true,
            };
            let payload_ok = match &res {
                Err(MapToError::PageAlreadyMapped(f)) => *f == frame,
                _ => true,
            };
            let c_target = !ok || (w_in.kind == MAPPED && w_in.size == bytes && w_in.phys == frame.start_address().as_u64() + (inside & (bytes - 1)));
            let c_leaf = !ok || w_in.leaf == flags.bits() | <$S as Sz>::LEAF_EXTRA;
            let c_rights = !ok || ((pf.bits() & RW == 0 || w_in.pw) && (pf.bits() & US == 0 || w_in.pu));
            let c_other = !ok || probe_in_page || (same_mapping(&w_pr_pre, &w_pr) && rights_only_added(&w_pr_pre, &w_pr, pf.bits()));
            let c_err_same = ok || (same_mapping(&w_in_pre, &w_in) && same_mapping(&w_pr_pre, &w_pr));
            let c_err_rights = ok || (rights_only_added(&w_in_pre, &w_in, pf.bits()) && rights_only_added(&w_pr_pre, &w_pr, pf.bits()));
            if !ok {
                relax_for_error(&mut m.dict, &pre, sh, pf.bits());
            }
            let c_huge = ok || m.huge_k == NONE || pool.rd(m.huge_k, m.huge_s) == pre.e[sh.d];
            let c_wf = w_in.kind != MALFORMED && w_pr.kind != MALFORMED;
            let on_huge_slot = m.huge_k != NONE && fk == m.huge_k && fs == m.huge_s;
            let c_frame = on_huge_slot || m.dict.agrees(fk, fs, f_pre, f_post);
            let missing = if sh.d < <$S as Sz>::L { <$S as Sz>::L - sh.d } else { 0 };
            let c_alloc = alloc.calls == m.requests && alloc.calls <= missing;
            let g = ghost();
            let z_ok = |n: usize| -> bool {
                if n < m.created {
                    g.zero_calls[4 + n] == 1 && g.alloc_seq[n] < g.zero_seq[4 + n] && (n + 1 >= alloc.calls || g.zero_seq[4 + n] < g.alloc_seq[n + 1])
                } else {
                    g.zero_calls[4 + n] == 0
                }
            };
            let c_zero = z_ok(0) && z_ok(1) && z_ok(2) && g.zero_calls[0] == 0 && g.zero_calls[1] == 0 && g.zero_calls[2] == 0 && g.zero_calls[3] == 0 && g.zero_elsewhere == 0;
            let c_outside = g.outside == 0;
            let c_c20 = outcome_ok && c_frame && c_outside;
            each! {
                outcome_ok => ob!("C02", "map_to", $sz, $shape, "documented_outcome: Ok / FrameAllocationFailed / ParentEntryHugePage / PageAlreadyMapped exactly in the state the documentation names"),
                token_ok => ob!("C11", "map_to", $sz, $shape, "token_names_page"),
                token_ok => ob!("C01", "map_to", $sz, $shape, "result_reports_page: a successful map reports the page it acted on"),
                payload_ok => ob!("C01", "map_to", $sz, $shape, "result_reports_frame: PageAlreadyMapped carries the frame argument"),
                c_target => ob!("C01", "map_to", $sz, $shape, "target_translates_to_frame: every address of the page walks to frame + offset at this page size"),
                c_leaf => ob!("C01", "map_to", $sz, $shape, "target_leaf_flags: leaf flags == flags plus PS"),
                c_rights => ob!("C01", "map_to", $sz, $shape, "parent_rights_include_requested: writable/user requested for the parents hold along the walk"),
                c_other => ob!("C01", "map_to", $sz, $shape, "other_addresses_unchanged: an address outside the page keeps frame, size, leaf flags; parent rights only gain requested bits"),
                c_err_same => ob!("C02", "map_to", $sz, $shape, "error_leaves_every_mapping: frame, size and leaf flags of the target and of an arbitrary address as before"),
                c_err_rights => ob!("C02", "map_to", $sz, $shape, "error_adds_at_most_parent_flags: rights along every walk changed at most by the requested parent flags"),
                c_huge => ob!("C02", "map_to", $sz, $shape, "huge_leaf_unchanged_on_error: the leaf entry of the enclosing huge page is bit-identical after ParentEntryHugePage"),
                c_wf => ob!("C09", "map_to", $sz, $shape, "no_dangling_table_pointer: every present non-leaf entry still points to a page table"),
                c_frame => ob!("C09", "map_to", $sz, $shape, "only_dictated_slots_change: every word of every table is unchanged, zeroed (fresh table) or holds the dictated value (new parent entries: frame | PRESENT | WRITABLE | parent flags)"),
                c_alloc => ob!("C09", "map_to", $sz, $shape, "allocator_requests: one request per missing table, none when the tables exist, never more than 2 / 1"),
                c_zero => ob!("C09", "map_to", $sz, $shape, "new_tables_zeroed_before_use: zero() runs exactly once on each frame obtained, after the request and before the next one, and on nothing else"),
                c_outside => ob!("C09", "map_to", $sz, $shape, "no_access_outside_page_tables: every recursive address the mapper dereferenced resolved to a page table of the hierarchy"),
                c_c20 => c20!("map_to", $sz),
            }
            kani::cover(m.outcome == M_OK, concat!("recursive map_to_", $sz, " ", $shape, ": Ok"));
            kani::cover(m.outcome == M_ERR_ALLOC, concat!("recursive map_to_", $sz, " ", $shape, ": FrameAllocationFailed"));
            kani::cover(m.outcome == M_ERR_HUGE, concat!("recursive map_to_", $sz, " ", $shape, ": ParentEntryHugePage"));
            kani::cover(m.outcome == M_ERR_ALREADY, concat!("recursive map_to_", $sz, " ", $shape, ": PageAlreadyMapped"));
        }};
    }

    macro_rules! rec_unmap_step {
        ($S:ty, $sz:literal, $shape:literal, $SH:expr, $ix:expr) => {{
            let ix: Idx = $ix;
            let sh: Shape = $SH;
            mk_pool!(pool);
            install_recursive_entry(&pool);
            mk_trap!(&ix);
            let pre = build_path(&pool, &ix, sh);
            add_background(&pool, &ix);
            let page: Page<$S> = page_of::<$S>(&ix);
            let (inside, jx) = any_inside::<$S>(&ix);
            let probe = any_probe();
            let probe_in_page = probe & !(<$S as Sz>::BYTES - 1) == page.start_address().as_u64();
            let w_in_pre = hw_walk_ix(&pool, &jx, inside);
            let w_pr_pre = hw_walk(&pool, probe);
            kani::assume(w_in_pre.kind != MALFORMED && w_pr_pre.kind != MALFORMED);
            let (fk, fs, f_pre) = any_slot(&pool);
            const LV: usize = <$S as Sz>::L;

            let mut mapper = unsafe { RecursivePageTable::new_unchecked(&mut *pool.p[0], PageTableIndex::new(R as u16)) };
            let res = Mapper::<$S>::unmap(&mut mapper, page);

            let outcome = model_outcome(sh, &pre, LV);
            let mut dict = Dict::new();
            if outcome == OK {
                dict.set(LV, ix.0[LV], 0, 0);
            }
            let w_in = hw_walk_ix(&pool, &jx, inside);
            let w_pr = hw_walk(&pool, probe);
            let f_post = pool.rd(fk, fs);

            // ---- every clause is evaluated first, then each is checked on its own path (each!).
            // No clause is masked: unmap has no known finding.
            let ok = res.is_ok();
            let c_nosuch = !(ok && outcome == E_NO_SUCH_MAPPING);
            let c_hp = outcome != E_PARENT_HUGE || matches!(res, Err(UnmapError::ParentEntryHugePage));
            let outcome_ok = match &res {
                Ok(_) => outcome == OK,
                Err(UnmapError::PageNotMapped) => outcome == E_NOT_MAPPED || outcome == E_NO_SUCH_MAPPING,
                Err(UnmapError::ParentEntryHugePage) => outcome == E_PARENT_HUGE || outcome == E_NO_SUCH_MAPPING,
                Err(UnmapError::InvalidFrameAddress(a)) => outcome == E_NO_SUCH_MAPPING || (outcome == E_INVALID_FRAME && a.as_u64() == pre.e[LV] & ADDR),
            };
            let (frame_ok, token_ok) = match &res {
                Ok((f, token)) => (f.start_address().as_u64() == pre.e[LV] & <$S as Sz>::LEAF_ADDR, token.page() == page),
                _ => (true, true),
            };
            let c_gone = !ok || w_in.kind == NOT_MAPPED;
            let c_other = !ok || probe_in_page || (same_mapping(&w_pr_pre, &w_pr) && rights_only_added(&w_pr_pre, &w_pr, 0));
            let c_err_same = ok || (same_mapping(&w_in_pre, &w_in) && same_mapping(&w_pr_pre, &w_pr) && rights_only_added(&w_in_pre, &w_in, 0) && rights_only_added(&w_pr_pre, &w_pr, 0));
            let c_wf = w_in.kind != MALFORMED && w_pr.kind != MALFORMED;
            let c_frame = dict.agrees(fk, fs, f_pre, f_post);
            let g = ghost();
            let c_noalloc = g.seq == 0 && g.zero_elsewhere == 0;
            let c_outside = g.outside == 0;
            let c_c20 = outcome_ok && c_frame && c_outside;
            each! {
                c_nosuch => ob!("C02", "unmap", $sz, $shape, "no_success_for_nonexistent_size: no mapping of this size exists, the call must not succeed"),
                c_hp => ob!("C02", "unmap", $sz, $shape, "huge_parent_is_reported_not_walked: the page lies inside a larger huge page; the call must answer ParentEntryHugePage instead of using the huge page's data frame as a page table"),
                outcome_ok => ob!("C02", "unmap", $sz, $shape, "documented_outcome: Ok for a mapped page of this size, PageNotMapped iff an entry on the path is absent, ParentEntryHugePage iff the page lies inside a larger huge page, InvalidFrameAddress(entry address) iff the leaf frame is misaligned"),
                frame_ok => ob!("C01", "unmap", $sz, $shape, "returns_mapped_frame: the frame held by the leaf entry, i.e. the one given to the earlier map"),
                token_ok => ob!("C11", "unmap", $sz, $shape, "token_names_page"),
                token_ok => ob!("C01", "unmap", $sz, $shape, "result_reports_page: a successful unmap reports the page it acted on"),
                c_gone => ob!("C01", "unmap", $sz, $shape, "target_not_mapped_after: every address of the page walks to not-mapped"),
                c_other => ob!("C01", "unmap", $sz, $shape, "other_addresses_unchanged: an address outside the page keeps frame, size, leaf flags and rights"),
                c_err_same => ob!("C02", "unmap", $sz, $shape, "error_leaves_every_mapping: frame, size, leaf flags and rights of the target and of an arbitrary address as before"),
                c_wf => ob!("C09", "unmap", $sz, $shape, "no_dangling_table_pointer: every present non-leaf entry still points to a page table"),
                c_frame => ob!("C09", "unmap", $sz, $shape, "only_dictated_slots_change: only the leaf slot of a successful unmap changes (to 0); parent tables stay linked; nothing else is written"),
                c_noalloc => ob!("C09", "unmap", $sz, $shape, "no_frames_requested_or_zeroed: unmap has no allocator and never runs zero()"),
                c_outside => ob!("C09", "unmap", $sz, $shape, "no_access_outside_page_tables: every recursive address the mapper dereferenced resolved to a page table of the hierarchy"),
                c_c20 => c20!("unmap", $sz),
            }
            kani::cover(outcome == OK, concat!("recursive unmap_", $sz, " ", $shape, ": Ok"));
            kani::cover(outcome == E_NOT_MAPPED, concat!("recursive unmap_", $sz, " ", $shape, ": PageNotMapped"));
            kani::cover(outcome == E_PARENT_HUGE, concat!("recursive unmap_", $sz, " ", $shape, ": ParentEntryHugePage"));
        }};
    }

    macro_rules! rec_update_flags_step {
        ($S:ty, $sz:literal, $shape:literal, $SH:expr, $ix:expr) => {{
            let ix: Idx = $ix;
            let sh: Shape = $SH;
            mk_pool!(pool);
            install_recursive_entry(&pool);
            mk_trap!(&ix);
            let pre = build_path(&pool, &ix, sh);
            add_background(&pool, &ix);
            let page: Page<$S> = page_of::<$S>(&ix);
            let flags = any_leaf_flags();
            let (inside, jx) = any_inside::<$S>(&ix);
            let probe = any_probe();
            let probe_in_page = probe & !(<$S as Sz>::BYTES - 1) == page.start_address().as_u64();
            let w_in_pre = hw_walk_ix(&pool, &jx, inside);
            let w_pr_pre = hw_walk(&pool, probe);
            kani::assume(w_in_pre.kind != MALFORMED && w_pr_pre.kind != MALFORMED);
            let (fk, fs, f_pre) = any_slot(&pool);
            const LV: usize = <$S as Sz>::L;

            let mut mapper = unsafe { RecursivePageTable::new_unchecked(&mut *pool.p[0], PageTableIndex::new(R as u16)) };
            let res = unsafe { Mapper::<$S>::update_flags(&mut mapper, page, flags) };

            let outcome = model_outcome(sh, &pre, LV);
            // FlagUpdateError has no variant for a misaligned huge leaf: outside the documented states
            kani::assume(outcome != E_INVALID_FRAME);
            let mut dict = Dict::new();
            if outcome == OK {
                dict.set(LV, ix.0[LV], (pre.e[LV] & <$S as Sz>::LEAF_ADDR) | flags.bits() | <$S as Sz>::LEAF_EXTRA, 0);
            }
            let w_in = hw_walk_ix(&pool, &jx, inside);
            let w_pr = hw_walk(&pool, probe);
            let f_post = pool.rd(fk, fs);

            // ---- every clause is evaluated first, then each is checked on its own path (each!)
            let ok = res.is_ok();
            let e_ph = matches!(res, Err(FlagUpdateError::ParentEntryHugePage));
            // a success although no mapping of this size exists: attributed to ONE clause
            let bogus_ns = ok && outcome == E_NO_SUCH_MAPPING;
            // the page lies inside a larger huge page and the call did not say so: it walked on
            // through the huge leaf into the data frame. Attributed to ONE clause.
            let bogus_hp = outcome == E_PARENT_HUGE && !e_ph;
            let bogus = bogus_ns || bogus_hp;
            let c_nosuch = !bogus_ns;
            let c_hp = !bogus_hp;
            let outcome_ok = bogus
                || match &res {
                    Ok(_) => outcome == OK,
                    Err(FlagUpdateError::PageNotMapped) => outcome == E_NOT_MAPPED || outcome == E_NO_SUCH_MAPPING,
                    Err(FlagUpdateError::ParentEntryHugePage) => outcome == E_PARENT_HUGE || outcome == E_NO_SUCH_MAPPING,
                };
            let token_ok = match &res {
                Ok(token) => token.page() == page,
                _ => true,
            };
            let good = ok && !bogus;
            let c_keeps = !good || (w_in.kind == MAPPED && w_in.size == w_in_pre.size && w_in.phys == w_in_pre.phys);
            let c_leaf = !good || w_in.leaf == flags.bits() | <$S as Sz>::LEAF_EXTRA;
            let c_other = !good || probe_in_page || (same_mapping(&w_pr_pre, &w_pr) && rights_only_added(&w_pr_pre, &w_pr, 0));
            let c_err_same = bogus || ok || (same_mapping(&w_in_pre, &w_in) && same_mapping(&w_pr_pre, &w_pr) && rights_only_added(&w_in_pre, &w_in, 0) && rights_only_added(&w_pr_pre, &w_pr, 0));
            let c_wf = bogus || (w_in.kind != MALFORMED && w_pr.kind != MALFORMED);
            let c_frame = bogus || dict.agrees(fk, fs, f_pre, f_post);
            let g = ghost();
            let c_noalloc = g.seq == 0 && g.zero_elsewhere == 0;
            let c_outside = g.outside == 0; // not masked by `bogus` (C09 counts the walk-through too)
            let c_c20 = outcome_ok && c_frame && (bogus || c_outside);
            each! {
                c_nosuch => ob!("C02", "update_flags", $sz, $shape, "no_success_for_nonexistent_size: no mapping of this size exists, the call must not succeed"),
                c_hp => ob!("C02", "update_flags", $sz, $shape, "huge_parent_is_reported_not_walked: the page lies inside a larger huge page; the call must answer ParentEntryHugePage (as MappedPageTable does) instead of using the huge page's data frame as a page table"),
                outcome_ok => ob!("C02", "update_flags", $sz, $shape, "documented_outcome: Ok for a mapped page of this size, PageNotMapped iff an entry on the path is absent, ParentEntryHugePage iff the page lies inside a larger huge page"),
                token_ok => ob!("C11", "update_flags", $sz, $shape, "token_names_page"),
                token_ok => ob!("C01", "update_flags", $sz, $shape, "result_reports_page: a successful call reports the page it acted on"),
                c_keeps => ob!("C01", "update_flags", $sz, $shape, "target_keeps_frame_and_size: every address of the page walks to the same physical address at the same size"),
                c_leaf => ob!("C01", "update_flags", $sz, $shape, "target_leaf_flags_replaced: leaf flags == flags plus PS"),
                c_other => ob!("C01", "update_flags", $sz, $shape, "other_addresses_unchanged: an address outside the page keeps frame, size, leaf flags and rights"),
                c_err_same => ob!("C02", "update_flags", $sz, $shape, "error_leaves_every_mapping: frame, size, leaf flags and rights of the target and of an arbitrary address as before"),
                c_wf => ob!("C09", "update_flags", $sz, $shape, "no_dangling_table_pointer: every present non-leaf entry still points to a page table"),
                c_frame => ob!("C09", "update_flags", $sz, $shape, "only_dictated_slots_change: only the leaf slot of a successful call changes (same frame, new flags); nothing else is written"),
                c_noalloc => ob!("C09", "update_flags", $sz, $shape, "no_frames_requested_or_zeroed: update_flags has no allocator and never runs zero()"),
                c_outside => ob!("C09", "update_flags", $sz, $shape, "no_access_outside_page_tables: every recursive address the mapper dereferenced resolved to a page table of the hierarchy"),
                c_c20 => c20!("update_flags", $sz),
            }
            kani::cover(outcome == OK, concat!("recursive update_flags_", $sz, " ", $shape, ": Ok"));
            kani::cover(outcome == E_NOT_MAPPED, concat!("recursive update_flags_", $sz, " ", $shape, ": PageNotMapped"));
            kani::cover(outcome == E_PARENT_HUGE, concat!("recursive update_flags_", $sz, " ", $shape, ": ParentEntryHugePage"));
        }};
    }

    macro_rules! rec_translate_page_step {
        ($S:ty, $sz:literal, $shape:literal, $SH:expr, $ix:expr) => {{
            let ix: Idx = $ix;
            let sh: Shape = $SH;
            mk_pool!(pool);
            install_recursive_entry(&pool);
            mk_trap!(&ix);
            let pre = build_path(&pool, &ix, sh);
            add_background(&pool, &ix);
            let page: Page<$S> = page_of::<$S>(&ix);
            let (inside, jx) = any_inside::<$S>(&ix);
            let w_in = hw_walk_ix(&pool, &jx, inside);
            kani::assume(w_in.kind != MALFORMED);
            let (fk, fs, f_pre) = any_slot(&pool);
            const LV: usize = <$S as Sz>::L;

            let mapper = unsafe { RecursivePageTable::new_unchecked(&mut *pool.p[0], PageTableIndex::new(R as u16)) };
            let res = Mapper::<$S>::translate_page(&mapper, page);

            let outcome = model_outcome(sh, &pre, LV);
            // ---- every clause is evaluated first, then each is checked on its own path (each!)
            let ok = res.is_ok();
            let e_ph = matches!(res, Err(TranslateError::ParentEntryHugePage));
            let bogus_ns = ok && outcome == E_NO_SUCH_MAPPING;
            let bogus_hp = outcome == E_PARENT_HUGE && !e_ph;
            let bogus = bogus_ns || bogus_hp;
            let c_nosuch = !bogus_ns;
            let c_hp = !bogus_hp;
            let bytes = <$S as Sz>::BYTES;
            let outcome_ok = bogus
                || match &res {
                    Ok(_) => outcome == OK,
                    Err(TranslateError::PageNotMapped) => outcome == E_NOT_MAPPED || outcome == E_NO_SUCH_MAPPING,
                    Err(TranslateError::ParentEntryHugePage) => outcome == E_PARENT_HUGE || outcome == E_NO_SUCH_MAPPING,
                    Err(TranslateError::InvalidFrameAddress(a)) => outcome == E_NO_SUCH_MAPPING || (outcome == E_INVALID_FRAME && a.as_u64() == pre.e[LV] & ADDR),
                };
            let walk_ok = bogus
                || outcome == E_NO_SUCH_MAPPING
                || outcome == E_INVALID_FRAME
                || match &res {
                    Ok(f) => w_in.kind == MAPPED && w_in.size == bytes && f.start_address().as_u64() == w_in.phys & !(bytes - 1),
                    Err(TranslateError::PageNotMapped) => w_in.kind == NOT_MAPPED,
                    Err(TranslateError::ParentEntryHugePage) => w_in.kind == MAPPED && w_in.size > bytes,
                    Err(TranslateError::InvalidFrameAddress(_)) => false,
                };
            let f_post = pool.rd(fk, fs);
            let c_frame = f_pre == f_post;
            let c_noalloc = ghost().seq == 0 && ghost().zero_elsewhere == 0;
            let c_outside = ghost().outside == 0; // not masked by `bogus` (C09 counts the walk-through too)
            let c_c20 = outcome_ok && walk_ok && (bogus || c_outside);
            each! {
                c_nosuch => ob!("C02", "translate_page", $sz, $shape, "no_success_for_nonexistent_size: no mapping of this size exists, the call must not succeed"),
                c_hp => ob!("C02", "translate_page", $sz, $shape, "huge_parent_is_reported_not_walked: the page lies inside a larger huge page; the call must answer ParentEntryHugePage (as MappedPageTable does) instead of using the huge page's data frame as a page table"),
                outcome_ok => ob!("C02", "translate_page", $sz, $shape, "documented_outcome: Ok for a mapped page of this size, PageNotMapped iff an entry on the path is absent, ParentEntryHugePage iff the page lies inside a larger huge page, InvalidFrameAddress(entry address) iff the leaf frame is misaligned"),
                walk_ok => ob!("C01", "translate_page", $sz, $shape, "agrees_with_walk: Ok(frame) iff the hardware walk maps every address of the page into that frame at this size; PageNotMapped iff it finds nothing; ParentEntryHugePage iff it ends in a larger page"),
                c_frame => ob!("C09", "translate_page", $sz, $shape, "writes_nothing: every word of every table unchanged"),
                c_noalloc => ob!("C09", "translate_page", $sz, $shape, "no_frames_requested_or_zeroed"),
                c_outside => ob!("C09", "translate_page", $sz, $shape, "no_access_outside_page_tables: every recursive address the mapper dereferenced resolved to a page table of the hierarchy"),
                c_c20 => c20!("translate_page", $sz),
            }
            kani::cover(outcome == OK, concat!("recursive translate_page_", $sz, " ", $shape, ": Ok"));
            kani::cover(outcome == E_NOT_MAPPED, concat!("recursive translate_page_", $sz, " ", $shape, ": PageNotMapped"));
            kani::cover(outcome == E_PARENT_HUGE, concat!("recursive translate_page_", $sz, " ", $shape, ": ParentEntryHugePage"));
        }};
    }

    /// `$op` = "set_flags_p4_entry" / "set_flags_p3_entry" / "set_flags_p2_entry", `$n` = level
    /// index of that entry (P4 = 0).
    macro_rules! rec_set_flags_step {
        ($S:ty, $sz:literal, $shape:literal, $SH:expr, $ix:expr, $method:ident, $op:literal, $n:expr) => {{
            let ix: Idx = $ix;
            let sh: Shape = $SH;
            mk_pool!(pool);
            install_recursive_entry(&pool);
            mk_trap!(&ix);
            let pre = build_path(&pool, &ix, sh);
            add_background(&pool, &ix);
            let page: Page<$S> = page_of::<$S>(&ix);
            let flags = any_parent_flags();
            let (inside, jx) = any_inside::<$S>(&ix);
            let probe = any_probe();
            let w_in_pre = hw_walk_ix(&pool, &jx, inside);
            let w_pr_pre = hw_walk(&pool, probe);
            kani::assume(w_in_pre.kind != MALFORMED && w_pr_pre.kind != MALFORMED);
            let (fk, fs, f_pre) = any_slot(&pool);
            const N: usize = $n;
            const APPLICABLE: bool = N < <$S as Sz>::L;

            let mut mapper = unsafe { RecursivePageTable::new_unchecked(&mut *pool.p[0], PageTableIndex::new(R as u16)) };
            let res: Result<MapperFlushAll, FlagUpdateError> = unsafe { Mapper::<$S>::$method(&mut mapper, page, flags) };

            let outcome = if APPLICABLE { model_outcome_flags(sh, &pre, N) } else { E_PARENT_HUGE };
            let mut dict = Dict::new();
            if outcome == OK {
                dict.set(N, ix.0[N], (pre.e[N] & ADDR) | flags.bits(), 0);
            }
            let w_in = hw_walk_ix(&pool, &jx, inside);
            let w_pr = hw_walk(&pool, probe);
            let f_post = pool.rd(fk, fs);

            // ---- every clause is evaluated first, then each is checked on its own path (each!)
            let ok = res.is_ok();
            let e_ph = matches!(res, Err(FlagUpdateError::ParentEntryHugePage));
            // the level-N entry is itself the leaf of a huge page (the page lies inside a huge page)
            let huge_leaf_case = APPLICABLE && outcome == E_PARENT_HUGE && sh.d == N;
            // a huge leaf ABOVE level N: the recursive address of the level-N table resolves
            // through it into the data frame
            let huge_above_case = APPLICABLE && outcome == E_PARENT_HUGE && sh.d < N;
            // a success on the huge leaf / a walk through the huge parent: attributed to ONE clause each
            let bogus_leaf = huge_leaf_case && ok;
            let bogus_hp = huge_above_case && !e_ph;
            let bogus = bogus_leaf || bogus_hp;
            let c_hp = !bogus_hp;
            let c_huge_leaf = !huge_leaf_case || (e_ph && pool.rd(N, ix.0[N]) == pre.e[N]);
            let c_na = APPLICABLE || !ok;
            let outcome_ok = !APPLICABLE
                || huge_leaf_case
                || bogus
                || match &res {
                    Ok(_) => outcome == OK,
                    Err(FlagUpdateError::PageNotMapped) => outcome == E_NOT_MAPPED,
                    Err(FlagUpdateError::ParentEntryHugePage) => outcome == E_PARENT_HUGE,
                };
            let good = ok && !bogus;
            let c_noleaf = !good || (same_mapping(&w_in_pre, &w_in) && same_mapping(&w_pr_pre, &w_pr));
            let c_entry = !good || !APPLICABLE || pool.rd(N, ix.0[N]) == (pre.e[N] & ADDR) | flags.bits();
            let c_err_same = bogus || ok || (same_mapping(&w_in_pre, &w_in) && same_mapping(&w_pr_pre, &w_pr) && rights_only_added(&w_in_pre, &w_in, 0) && rights_only_added(&w_pr_pre, &w_pr, 0));
            let c_wf = bogus || (w_in.kind != MALFORMED && w_pr.kind != MALFORMED);
            let c_frame = bogus || dict.agrees(fk, fs, f_pre, f_post);
            let g = ghost();
            let c_noalloc = g.seq == 0 && g.zero_elsewhere == 0;
            let c_outside = g.outside == 0; // not masked by `bogus` (C09 counts the walk-through too)
            let c_c20 = outcome_ok && c_frame && (bogus || c_outside);
            each! {
                c_na => ob!("C02", $op, $sz, $shape, "level_above_leaf_does_not_exist_is_error: a page of this size has no parent entry at this level"),
                c_huge_leaf => ob!("C02", $op, $sz, $shape, "reports_parent_entry_huge_page_and_unchanged: the page lies inside a huge page whose leaf is this entry; ParentEntryHugePage and the leaf bit-identical"),
                c_hp => ob!("C02", $op, $sz, $shape, "huge_parent_is_reported_not_walked: the page lies inside a larger huge page above this level; the call must answer ParentEntryHugePage (as MappedPageTable does) instead of using the huge page's data frame as a page table"),
                outcome_ok => ob!("C02", $op, $sz, $shape, "documented_outcome: Ok iff the entry exists and points to a table, PageNotMapped iff an entry down to this level is absent, ParentEntryHugePage iff the page lies inside a huge page"),
                // C11: a change to a parent entry returns the flush-all token: Result<MapperFlushAll, _> by type
                true => ob!("C11", $op, $sz, $shape, "flush_all_token"),
                c_noleaf => ob!("C01", $op, $sz, $shape, "no_leaf_changes: frame, size and leaf flags of the target and of an arbitrary address as before"),
                c_entry => ob!("C01", $op, $sz, $shape, "entry_flags_replaced_address_kept: the level-N entry holds its old address with exactly the given flags"),
                c_err_same => ob!("C02", $op, $sz, $shape, "error_leaves_every_mapping: frame, size, leaf flags and rights of the target and of an arbitrary address as before"),
                c_wf => ob!("C09", $op, $sz, $shape, "no_dangling_table_pointer: every present non-leaf entry still points to a page table"),
                c_frame => ob!("C09", $op, $sz, $shape, "only_dictated_slots_change: only the level-N entry of a successful call changes; nothing else is written"),
                c_noalloc => ob!("C09", $op, $sz, $shape, "no_frames_requested_or_zeroed: the call has no allocator and never runs zero()"),
                c_outside => ob!("C09", $op, $sz, $shape, "no_access_outside_page_tables: every recursive address the mapper dereferenced resolved to a page table of the hierarchy"),
                c_c20 => c20!($op, $sz),
            }
            kani::cover(outcome == OK, concat!("recursive ", $op, "_", $sz, " ", $shape, ": Ok"));
            kani::cover(outcome == E_NOT_MAPPED, concat!("recursive ", $op, "_", $sz, " ", $shape, ": PageNotMapped"));
            kani::cover(outcome == E_PARENT_HUGE, concat!("recursive ", $op, "_", $sz, " ", $shape, ": ParentEntryHugePage"));
        }};
    }

    //@ obligation C02 C02.recursive_map_to_2mib.shape_p4_absent.documented_outcome tier=thorough bounded="pool of 7 tables (4 path + 3 allocatable); tree-shaped sparse pre-state (target path, one neighbour word per path table, garbage in allocatable frames); recursive index 300; page-table indices (255,511,0,256)"
    //@ obligation C01 C01.recursive_map_to_2mib.shape_p4_absent.target_translates_to_frame tier=thorough bounded="pool of 7 tables (4 path + 3 allocatable); tree-shaped sparse pre-state (target path, one neighbour word per path table, garbage in allocatable frames); recursive index 300; page-table indices (255,511,0,256)"
    //@ obligation C11 C11.recursive_map_to_2mib.shape_p4_absent.target_translates_to_frame tier=thorough bounded="pool of 7 tables (4 path + 3 allocatable); tree-shaped sparse pre-state (target path, one neighbour word per path table, garbage in allocatable frames); recursive index 300; page-table indices (255,511,0,256)"
    //@ obligation C01 C01.recursive_map_to_2mib.shape_p4_absent.target_leaf_flags tier=thorough bounded="pool of 7 tables (4 path + 3 allocatable); tree-shaped sparse pre-state (target path, one neighbour word per path table, garbage in allocatable frames); recursive index 300; page-table indices (255,511,0,256)"
    //@ obligation C11 C11.recursive_map_to_2mib.shape_p4_absent.target_leaf_flags tier=thorough bounded="pool of 7 tables (4 path + 3 allocatable); tree-shaped sparse pre-state (target path, one neighbour word per path table, garbage in allocatable frames); recursive index 300; page-table indices (255,511,0,256)"
    //@ obligation C01 C01.recursive_map_to_2mib.shape_p4_absent.parent_rights_include_requested tier=thorough bounded="pool of 7 tables (4 path + 3 allocatable); tree-shaped sparse pre-state (target path, one neighbour word per path table, garbage in allocatable frames); recursive index 300; page-table indices (255,511,0,256)"
    //@ obligation C01 C01.recursive_map_to_2mib.shape_p4_absent.other_addresses_unchanged tier=thorough bounded="pool of 7 tables (4 path + 3 allocatable); tree-shaped sparse pre-state (target path, one neighbour word per path table, garbage in allocatable frames); recursive index 300; page-table indices (255,511,0,256)"
    //@ obligation C11 C11.recursive_map_to_2mib.shape_p4_absent.other_addresses_unchanged tier=thorough bounded="pool of 7 tables (4 path + 3 allocatable); tree-shaped sparse pre-state (target path, one neighbour word per path table, garbage in allocatable frames); recursive index 300; page-table indices (255,511,0,256)"
    //@ obligation C01 C01.recursive_map_to_2mib.shape_p4_absent.result_reports_page tier=thorough bounded="pool of 7 tables (4 path + 3 allocatable); tree-shaped sparse pre-state (target path, one neighbour word per path table, garbage in allocatable frames); recursive index 300; page-table indices (255,511,0,256)"
    //@ obligation C11 C11.recursive_map_to_2mib.shape_p4_absent.token_names_page tier=thorough bounded="pool of 7 tables (4 path + 3 allocatable); tree-shaped sparse pre-state (target path, one neighbour word per path table, garbage in allocatable frames); recursive index 300; page-table indices (255,511,0,256)"
    //@ obligation C02 C02.recursive_map_to_2mib.shape_p4_absent.error_leaves_every_mapping tier=thorough bounded="pool of 7 tables (4 path + 3 allocatable); tree-shaped sparse pre-state (target path, one neighbour word per path table, garbage in allocatable frames); recursive index 300; page-table indices (255,511,0,256)"
    //@ obligation C02 C02.recursive_map_to_2mib.shape_p4_absent.error_adds_at_most_parent_flags tier=thorough bounded="pool of 7 tables (4 path + 3 allocatable); tree-shaped sparse pre-state (target path, one neighbour word per path table, garbage in allocatable frames); recursive index 300; page-table indices (255,511,0,256)"
    //@ obligation C09 C09.recursive_map_to_2mib.shape_p4_absent.only_dictated_slots_change tier=thorough bounded="pool of 7 tables (4 path + 3 allocatable); tree-shaped sparse pre-state (target path, one neighbour word per path table, garbage in allocatable frames); recursive index 300; page-table indices (255,511,0,256)"
    //@ obligation C09 C09.recursive_map_to_2mib.shape_p4_absent.allocator_requests tier=thorough bounded="pool of 7 tables (4 path + 3 allocatable); tree-shaped sparse pre-state (target path, one neighbour word per path table, garbage in allocatable frames); recursive index 300; page-table indices (255,511,0,256)"
    //@ obligation C09 C09.recursive_map_to_2mib.shape_p4_absent.new_tables_zeroed_before_use tier=thorough bounded="pool of 7 tables (4 path + 3 allocatable); tree-shaped sparse pre-state (target path, one neighbour word per path table, garbage in allocatable frames); recursive index 300; page-table indices (255,511,0,256)"
    //@ obligation C09 C09.recursive_map_to_2mib.shape_p4_absent.no_dangling_table_pointer tier=thorough bounded="pool of 7 tables (4 path + 3 allocatable); tree-shaped sparse pre-state (target path, one neighbour word per path table, garbage in allocatable frames); recursive index 300; page-table indices (255,511,0,256)"
    //@ obligation C09 C09.recursive_map_to_2mib.shape_p4_absent.no_access_outside_page_tables tier=thorough bounded="pool of 7 tables (4 path + 3 allocatable); tree-shaped sparse pre-state (target path, one neighbour word per path table, garbage in allocatable frames); recursive index 300; page-table indices (255,511,0,256)"
    //@ obligation C20 C20.recursive_map_to_2mib.uses_recursive_addresses_of_the_page tier=thorough bounded="pool of 7 tables (4 path + 3 allocatable); tree-shaped sparse pre-state (target path, one neighbour word per path table, garbage in allocatable frames); recursive index 300; page-table indices (255,511,0,256)"
    #[kani::proof]
    #[kani::stub(crate::structures::paging::page_table::PageTable::zero, zero_stub)]
    #[kani::stub(crate::addr::VirtAddr::as_mut_ptr, mmu_trap_as_mut_ptr)]
    fn c01_recursive_map_to_2mib_p4_absent_mid() {
        rec_map_to_step!(Size2MiB, "2mib", "p4_absent", P4_ABSENT, IDX_MID);
        kani::cover!(true, "c01_recursive_map_to_2mib_p4_absent_mid: reachable");
    }

    //@ obligation C02 C02.recursive_map_to_2mib.shape_p4_absent.documented_outcome tier=thorough bounded="pool of 7 tables (4 path + 3 allocatable); tree-shaped sparse pre-state (target path, one neighbour word per path table, garbage in allocatable frames); recursive index 300; page-table indices (256,0,510,511)"
    //@ obligation C01 C01.recursive_map_to_2mib.shape_p4_absent.target_translates_to_frame tier=thorough bounded="pool of 7 tables (4 path + 3 allocatable); tree-shaped sparse pre-state (target path, one neighbour word per path table, garbage in allocatable frames); recursive index 300; page-table indices (256,0,510,511)"
    //@ obligation C11 C11.recursive_map_to_2mib.shape_p4_absent.target_translates_to_frame tier=thorough bounded="pool of 7 tables (4 path + 3 allocatable); tree-shaped sparse pre-state (target path, one neighbour word per path table, garbage in allocatable frames); recursive index 300; page-table indices (256,0,510,511)"
    //@ obligation C01 C01.recursive_map_to_2mib.shape_p4_absent.target_leaf_flags tier=thorough bounded="pool of 7 tables (4 path + 3 allocatable); tree-shaped sparse pre-state (target path, one neighbour word per path table, garbage in allocatable frames); recursive index 300; page-table indices (256,0,510,511)"
    //@ obligation C11 C11.recursive_map_to_2mib.shape_p4_absent.target_leaf_flags tier=thorough bounded="pool of 7 tables (4 path + 3 allocatable); tree-shaped sparse pre-state (target path, one neighbour word per path table, garbage in allocatable frames); recursive index 300; page-table indices (256,0,510,511)"
    //@ obligation C01 C01.recursive_map_to_2mib.shape_p4_absent.parent_rights_include_requested tier=thorough bounded="pool of 7 tables (4 path + 3 allocatable); tree-shaped sparse pre-state (target path, one neighbour word per path table, garbage in allocatable frames); recursive index 300; page-table indices (256,0,510,511)"
    //@ obligation C01 C01.recursive_map_to_2mib.shape_p4_absent.other_addresses_unchanged tier=thorough bounded="pool of 7 tables (4 path + 3 allocatable); tree-shaped sparse pre-state (target path, one neighbour word per path table, garbage in allocatable frames); recursive index 300; page-table indices (256,0,510,511)"
    //@ obligation C11 C11.recursive_map_to_2mib.shape_p4_absent.other_addresses_unchanged tier=thorough bounded="pool of 7 tables (4 path + 3 allocatable); tree-shaped sparse pre-state (target path, one neighbour word per path table, garbage in allocatable frames); recursive index 300; page-table indices (256,0,510,511)"
    //@ obligation C01 C01.recursive_map_to_2mib.shape_p4_absent.result_reports_page tier=thorough bounded="pool of 7 tables (4 path + 3 allocatable); tree-shaped sparse pre-state (target path, one neighbour word per path table, garbage in allocatable frames); recursive index 300; page-table indices (256,0,510,511)"
    //@ obligation C11 C11.recursive_map_to_2mib.shape_p4_absent.token_names_page tier=thorough bounded="pool of 7 tables (4 path + 3 allocatable); tree-shaped sparse pre-state (target path, one neighbour word per path table, garbage in allocatable frames); recursive index 300; page-table indices (256,0,510,511)"
    //@ obligation C02 C02.recursive_map_to_2mib.shape_p4_absent.error_leaves_every_mapping tier=thorough bounded="pool of 7 tables (4 path + 3 allocatable); tree-shaped sparse pre-state (target path, one neighbour word per path table, garbage in allocatable frames); recursive index 300; page-table indices (256,0,510,511)"
    //@ obligation C02 C02.recursive_map_to_2mib.shape_p4_absent.error_adds_at_most_parent_flags tier=thorough bounded="pool of 7 tables (4 path + 3 allocatable); tree-shaped sparse pre-state (target path, one neighbour word per path table, garbage in allocatable frames); recursive index 300; page-table indices (256,0,510,511)"
    //@ obligation C09 C09.recursive_map_to_2mib.shape_p4_absent.only_dictated_slots_change tier=thorough bounded="pool of 7 tables (4 path + 3 allocatable); tree-shaped sparse pre-state (target path, one neighbour word per path table, garbage in allocatable frames); recursive index 300; page-table indices (256,0,510,511)"
    //@ obligation C09 C09.recursive_map_to_2mib.shape_p4_absent.allocator_requests tier=thorough bounded="pool of 7 tables (4 path + 3 allocatable); tree-shaped sparse pre-state (target path, one neighbour word per path table, garbage in allocatable frames); recursive index 300; page-table indices (256,0,510,511)"
    //@ obligation C09 C09.recursive_map_to_2mib.shape_p4_absent.new_tables_zeroed_before_use tier=thorough bounded="pool of 7 tables (4 path + 3 allocatable); tree-shaped sparse pre-state (target path, one neighbour word per path table, garbage in allocatable frames); recursive index 300; page-table indices (256,0,510,511)"
    //@ obligation C09 C09.recursive_map_to_2mib.shape_p4_absent.no_dangling_table_pointer tier=thorough bounded="pool of 7 tables (4 path + 3 allocatable); tree-shaped sparse pre-state (target path, one neighbour word per path table, garbage in allocatable frames); recursive index 300; page-table indices (256,0,510,511)"
    //@ obligation C09 C09.recursive_map_to_2mib.shape_p4_absent.no_access_outside_page_tables tier=thorough bounded="pool of 7 tables (4 path + 3 allocatable); tree-shaped sparse pre-state (target path, one neighbour word per path table, garbage in allocatable frames); recursive index 300; page-table indices (256,0,510,511)"
    //@ obligation C20 C20.recursive_map_to_2mib.uses_recursive_addresses_of_the_page tier=thorough bounded="pool of 7 tables (4 path + 3 allocatable); tree-shaped sparse pre-state (target path, one neighbour word per path table, garbage in allocatable frames); recursive index 300; page-table indices (256,0,510,511)"
    #[kani::proof]
    #[kani::stub(crate::structures::paging::page_table::PageTable::zero, zero_stub)]
    #[kani::stub(crate::addr::VirtAddr::as_mut_ptr, mmu_trap_as_mut_ptr)]
    fn c01_recursive_map_to_2mib_p4_absent_up() {
        rec_map_to_step!(Size2MiB, "2mib", "p4_absent", P4_ABSENT, IDX_UP);
        kani::cover!(true, "c01_recursive_map_to_2mib_p4_absent_up: reachable");
    }

    //@ obligation C02 C02.recursive_map_to_2mib.shape_p3_absent.documented_outcome bounded="pool of 7 tables (4 path + 3 allocatable); tree-shaped sparse pre-state (target path, one neighbour word per path table, garbage in allocatable frames); recursive index 300; page-table indices (255,511,0,256)"
    //@ obligation C01 C01.recursive_map_to_2mib.shape_p3_absent.target_translates_to_frame bounded="pool of 7 tables (4 path + 3 allocatable); tree-shaped sparse pre-state (target path, one neighbour word per path table, garbage in allocatable frames); recursive index 300; page-table indices (255,511,0,256)"
    //@ obligation C11 C11.recursive_map_to_2mib.shape_p3_absent.target_translates_to_frame bounded="pool of 7 tables (4 path + 3 allocatable); tree-shaped sparse pre-state (target path, one neighbour word per path table, garbage in allocatable frames); recursive index 300; page-table indices (255,511,0,256)"
    //@ obligation C01 C01.recursive_map_to_2mib.shape_p3_absent.target_leaf_flags bounded="pool of 7 tables (4 path + 3 allocatable); tree-shaped sparse pre-state (target path, one neighbour word per path table, garbage in allocatable frames); recursive index 300; page-table indices (255,511,0,256)"
    //@ obligation C11 C11.recursive_map_to_2mib.shape_p3_absent.target_leaf_flags bounded="pool of 7 tables (4 path + 3 allocatable); tree-shaped sparse pre-state (target path, one neighbour word per path table, garbage in allocatable frames); recursive index 300; page-table indices (255,511,0,256)"
    //@ obligation C01 C01.recursive_map_to_2mib.shape_p3_absent.parent_rights_include_requested bounded="pool of 7 tables (4 path + 3 allocatable); tree-shaped sparse pre-state (target path, one neighbour word per path table, garbage in allocatable frames); recursive index 300; page-table indices (255,511,0,256)"
    //@ obligation C01 C01.recursive_map_to_2mib.shape_p3_absent.other_addresses_unchanged bounded="pool of 7 tables (4 path + 3 allocatable); tree-shaped sparse pre-state (target path, one neighbour word per path table, garbage in allocatable frames); recursive index 300; page-table indices (255,511,0,256)"
    //@ obligation C11 C11.recursive_map_to_2mib.shape_p3_absent.other_addresses_unchanged bounded="pool of 7 tables (4 path + 3 allocatable); tree-shaped sparse pre-state (target path, one neighbour word per path table, garbage in allocatable frames); recursive index 300; page-table indices (255,511,0,256)"
    //@ obligation C01 C01.recursive_map_to_2mib.shape_p3_absent.result_reports_page bounded="pool of 7 tables (4 path + 3 allocatable); tree-shaped sparse pre-state (target path, one neighbour word per path table, garbage in allocatable frames); recursive index 300; page-table indices (255,511,0,256)"
    //@ obligation C11 C11.recursive_map_to_2mib.shape_p3_absent.token_names_page bounded="pool of 7 tables (4 path + 3 allocatable); tree-shaped sparse pre-state (target path, one neighbour word per path table, garbage in allocatable frames); recursive index 300; page-table indices (255,511,0,256)"
    //@ obligation C02 C02.recursive_map_to_2mib.shape_p3_absent.error_leaves_every_mapping bounded="pool of 7 tables (4 path + 3 allocatable); tree-shaped sparse pre-state (target path, one neighbour word per path table, garbage in allocatable frames); recursive index 300; page-table indices (255,511,0,256)"
    //@ obligation C02 C02.recursive_map_to_2mib.shape_p3_absent.error_adds_at_most_parent_flags bounded="pool of 7 tables (4 path + 3 allocatable); tree-shaped sparse pre-state (target path, one neighbour word per path table, garbage in allocatable frames); recursive index 300; page-table indices (255,511,0,256)"
    //@ obligation C09 C09.recursive_map_to_2mib.shape_p3_absent.only_dictated_slots_change bounded="pool of 7 tables (4 path + 3 allocatable); tree-shaped sparse pre-state (target path, one neighbour word per path table, garbage in allocatable frames); recursive index 300; page-table indices (255,511,0,256)"
    //@ obligation C09 C09.recursive_map_to_2mib.shape_p3_absent.allocator_requests bounded="pool of 7 tables (4 path + 3 allocatable); tree-shaped sparse pre-state (target path, one neighbour word per path table, garbage in allocatable frames); recursive index 300; page-table indices (255,511,0,256)"
    //@ obligation C09 C09.recursive_map_to_2mib.shape_p3_absent.new_tables_zeroed_before_use bounded="pool of 7 tables (4 path + 3 allocatable); tree-shaped sparse pre-state (target path, one neighbour word per path table, garbage in allocatable frames); recursive index 300; page-table indices (255,511,0,256)"
    //@ obligation C09 C09.recursive_map_to_2mib.shape_p3_absent.no_dangling_table_pointer bounded="pool of 7 tables (4 path + 3 allocatable); tree-shaped sparse pre-state (target path, one neighbour word per path table, garbage in allocatable frames); recursive index 300; page-table indices (255,511,0,256)"
    //@ obligation C09 C09.recursive_map_to_2mib.shape_p3_absent.no_access_outside_page_tables bounded="pool of 7 tables (4 path + 3 allocatable); tree-shaped sparse pre-state (target path, one neighbour word per path table, garbage in allocatable frames); recursive index 300; page-table indices (255,511,0,256)"
    //@ obligation C20 C20.recursive_map_to_2mib.uses_recursive_addresses_of_the_page bounded="pool of 7 tables (4 path + 3 allocatable); tree-shaped sparse pre-state (target path, one neighbour word per path table, garbage in allocatable frames); recursive index 300; page-table indices (255,511,0,256)"
    #[kani::proof]
    #[kani::stub(crate::structures::paging::page_table::PageTable::zero, zero_stub)]
    #[kani::stub(crate::addr::VirtAddr::as_mut_ptr, mmu_trap_as_mut_ptr)]
    fn c01_recursive_map_to_2mib_p3_absent_mid() {
        rec_map_to_step!(Size2MiB, "2mib", "p3_absent", P3_ABSENT, IDX_MID);
        kani::cover!(true, "c01_recursive_map_to_2mib_p3_absent_mid: reachable");
    }

    //@ obligation C02 C02.recursive_map_to_2mib.shape_p3_absent.documented_outcome tier=thorough bounded="pool of 7 tables (4 path + 3 allocatable); tree-shaped sparse pre-state (target path, one neighbour word per path table, garbage in allocatable frames); recursive index 300; page-table indices (256,0,510,511)"
    //@ obligation C01 C01.recursive_map_to_2mib.shape_p3_absent.target_translates_to_frame tier=thorough bounded="pool of 7 tables (4 path + 3 allocatable); tree-shaped sparse pre-state (target path, one neighbour word per path table, garbage in allocatable frames); recursive index 300; page-table indices (256,0,510,511)"
    //@ obligation C11 C11.recursive_map_to_2mib.shape_p3_absent.target_translates_to_frame tier=thorough bounded="pool of 7 tables (4 path + 3 allocatable); tree-shaped sparse pre-state (target path, one neighbour word per path table, garbage in allocatable frames); recursive index 300; page-table indices (256,0,510,511)"
    //@ obligation C01 C01.recursive_map_to_2mib.shape_p3_absent.target_leaf_flags tier=thorough bounded="pool of 7 tables (4 path + 3 allocatable); tree-shaped sparse pre-state (target path, one neighbour word per path table, garbage in allocatable frames); recursive index 300; page-table indices (256,0,510,511)"
    //@ obligation C11 C11.recursive_map_to_2mib.shape_p3_absent.target_leaf_flags tier=thorough bounded="pool of 7 tables (4 path + 3 allocatable); tree-shaped sparse pre-state (target path, one neighbour word per path table, garbage in allocatable frames); recursive index 300; page-table indices (256,0,510,511)"
    //@ obligation C01 C01.recursive_map_to_2mib.shape_p3_absent.parent_rights_include_requested tier=thorough bounded="pool of 7 tables (4 path + 3 allocatable); tree-shaped sparse pre-state (target path, one neighbour word per path table, garbage in allocatable frames); recursive index 300; page-table indices (256,0,510,511)"
    //@ obligation C01 C01.recursive_map_to_2mib.shape_p3_absent.other_addresses_unchanged tier=thorough bounded="pool of 7 tables (4 path + 3 allocatable); tree-shaped sparse pre-state (target path, one neighbour word per path table, garbage in allocatable frames); recursive index 300; page-table indices (256,0,510,511)"
    //@ obligation C11 C11.recursive_map_to_2mib.shape_p3_absent.other_addresses_unchanged tier=thorough bounded="pool of 7 tables (4 path + 3 allocatable); tree-shaped sparse pre-state (target path, one neighbour word per path table, garbage in allocatable frames); recursive index 300; page-table indices (256,0,510,511)"
    //@ obligation C01 C01.recursive_map_to_2mib.shape_p3_absent.result_reports_page tier=thorough bounded="pool of 7 tables (4 path + 3 allocatable); tree-shaped sparse pre-state (target path, one neighbour word per path table, garbage in allocatable frames); recursive index 300; page-table indices (256,0,510,511)"
    //@ obligation C11 C11.recursive_map_to_2mib.shape_p3_absent.token_names_page tier=thorough bounded="pool of 7 tables (4 path + 3 allocatable); tree-shaped sparse pre-state (target path, one neighbour word per path table, garbage in allocatable frames); recursive index 300; page-table indices (256,0,510,511)"
    //@ obligation C02 C02.recursive_map_to_2mib.shape_p3_absent.error_leaves_every_mapping tier=thorough bounded="pool of 7 tables (4 path + 3 allocatable); tree-shaped sparse pre-state (target path, one neighbour word per path table, garbage in allocatable frames); recursive index 300; page-table indices (256,0,510,511)"
    //@ obligation C02 C02.recursive_map_to_2mib.shape_p3_absent.error_adds_at_most_parent_flags tier=thorough bounded="pool of 7 tables (4 path + 3 allocatable); tree-shaped sparse pre-state (target path, one neighbour word per path table, garbage in allocatable frames); recursive index 300; page-table indices (256,0,510,511)"
    //@ obligation C09 C09.recursive_map_to_2mib.shape_p3_absent.only_dictated_slots_change tier=thorough bounded="pool of 7 tables (4 path + 3 allocatable); tree-shaped sparse pre-state (target path, one neighbour word per path table, garbage in allocatable frames); recursive index 300; page-table indices (256,0,510,511)"
    //@ obligation C09 C09.recursive_map_to_2mib.shape_p3_absent.allocator_requests tier=thorough bounded="pool of 7 tables (4 path + 3 allocatable); tree-shaped sparse pre-state (target path, one neighbour word per path table, garbage in allocatable frames); recursive index 300; page-table indices (256,0,510,511)"
    //@ obligation C09 C09.recursive_map_to_2mib.shape_p3_absent.new_tables_zeroed_before_use tier=thorough bounded="pool of 7 tables (4 path + 3 allocatable); tree-shaped sparse pre-state (target path, one neighbour word per path table, garbage in allocatable frames); recursive index 300; page-table indices (256,0,510,511)"
    //@ obligation C09 C09.recursive_map_to_2mib.shape_p3_absent.no_dangling_table_pointer tier=thorough bounded="pool of 7 tables (4 path + 3 allocatable); tree-shaped sparse pre-state (target path, one neighbour word per path table, garbage in allocatable frames); recursive index 300; page-table indices (256,0,510,511)"
    //@ obligation C09 C09.recursive_map_to_2mib.shape_p3_absent.no_access_outside_page_tables tier=thorough bounded="pool of 7 tables (4 path + 3 allocatable); tree-shaped sparse pre-state (target path, one neighbour word per path table, garbage in allocatable frames); recursive index 300; page-table indices (256,0,510,511)"
    //@ obligation C20 C20.recursive_map_to_2mib.uses_recursive_addresses_of_the_page tier=thorough bounded="pool of 7 tables (4 path + 3 allocatable); tree-shaped sparse pre-state (target path, one neighbour word per path table, garbage in allocatable frames); recursive index 300; page-table indices (256,0,510,511)"
    #[kani::proof]
    #[kani::stub(crate::structures::paging::page_table::PageTable::zero, zero_stub)]
    #[kani::stub(crate::addr::VirtAddr::as_mut_ptr, mmu_trap_as_mut_ptr)]
    fn c01_recursive_map_to_2mib_p3_absent_up() {
        rec_map_to_step!(Size2MiB, "2mib", "p3_absent", P3_ABSENT, IDX_UP);
        kani::cover!(true, "c01_recursive_map_to_2mib_p3_absent_up: reachable");
    }

    //@ obligation C02 C02.recursive_map_to_2mib.shape_p3_huge.documented_outcome tier=thorough bounded="pool of 7 tables (4 path + 3 allocatable); tree-shaped sparse pre-state (target path, one neighbour word per path table, garbage in allocatable frames); recursive index 300; page-table indices (255,511,0,256)"
    //@ obligation C02 C02.recursive_map_to_2mib.shape_p3_huge.error_leaves_every_mapping tier=thorough bounded="pool of 7 tables (4 path + 3 allocatable); tree-shaped sparse pre-state (target path, one neighbour word per path table, garbage in allocatable frames); recursive index 300; page-table indices (255,511,0,256)"
    //@ obligation C02 C02.recursive_map_to_2mib.shape_p3_huge.error_adds_at_most_parent_flags tier=thorough bounded="pool of 7 tables (4 path + 3 allocatable); tree-shaped sparse pre-state (target path, one neighbour word per path table, garbage in allocatable frames); recursive index 300; page-table indices (255,511,0,256)"
    //@ obligation C02 C02.recursive_map_to_2mib.shape_p3_huge.huge_leaf_unchanged_on_error tier=thorough bounded="pool of 7 tables (4 path + 3 allocatable); tree-shaped sparse pre-state (target path, one neighbour word per path table, garbage in allocatable frames); recursive index 300; page-table indices (255,511,0,256)"
    //@ obligation C09 C09.recursive_map_to_2mib.shape_p3_huge.only_dictated_slots_change tier=thorough bounded="pool of 7 tables (4 path + 3 allocatable); tree-shaped sparse pre-state (target path, one neighbour word per path table, garbage in allocatable frames); recursive index 300; page-table indices (255,511,0,256)"
    //@ obligation C09 C09.recursive_map_to_2mib.shape_p3_huge.allocator_requests tier=thorough bounded="pool of 7 tables (4 path + 3 allocatable); tree-shaped sparse pre-state (target path, one neighbour word per path table, garbage in allocatable frames); recursive index 300; page-table indices (255,511,0,256)"
    //@ obligation C09 C09.recursive_map_to_2mib.shape_p3_huge.new_tables_zeroed_before_use tier=thorough bounded="pool of 7 tables (4 path + 3 allocatable); tree-shaped sparse pre-state (target path, one neighbour word per path table, garbage in allocatable frames); recursive index 300; page-table indices (255,511,0,256)"
    //@ obligation C09 C09.recursive_map_to_2mib.shape_p3_huge.no_dangling_table_pointer tier=thorough bounded="pool of 7 tables (4 path + 3 allocatable); tree-shaped sparse pre-state (target path, one neighbour word per path table, garbage in allocatable frames); recursive index 300; page-table indices (255,511,0,256)"
    //@ obligation C09 C09.recursive_map_to_2mib.shape_p3_huge.no_access_outside_page_tables tier=thorough bounded="pool of 7 tables (4 path + 3 allocatable); tree-shaped sparse pre-state (target path, one neighbour word per path table, garbage in allocatable frames); recursive index 300; page-table indices (255,511,0,256)"
    //@ obligation C20 C20.recursive_map_to_2mib.uses_recursive_addresses_of_the_page tier=thorough bounded="pool of 7 tables (4 path + 3 allocatable); tree-shaped sparse pre-state (target path, one neighbour word per path table, garbage in allocatable frames); recursive index 300; page-table indices (255,511,0,256)"
    #[kani::proof]
    #[kani::stub(crate::structures::paging::page_table::PageTable::zero, zero_stub)]
    #[kani::stub(crate::addr::VirtAddr::as_mut_ptr, mmu_trap_as_mut_ptr)]
    fn c01_recursive_map_to_2mib_p3_huge_mid() {
        rec_map_to_step!(Size2MiB, "2mib", "p3_huge", P3_HUGE, IDX_MID);
        kani::cover!(true, "c01_recursive_map_to_2mib_p3_huge_mid: reachable");
    }

    //@ obligation C02 C02.recursive_map_to_2mib.shape_p3_huge.documented_outcome tier=thorough bounded="pool of 7 tables (4 path + 3 allocatable); tree-shaped sparse pre-state (target path, one neighbour word per path table, garbage in allocatable frames); recursive index 300; page-table indices (256,0,510,511)"
    //@ obligation C02 C02.recursive_map_to_2mib.shape_p3_huge.error_leaves_every_mapping tier=thorough bounded="pool of 7 tables (4 path + 3 allocatable); tree-shaped sparse pre-state (target path, one neighbour word per path table, garbage in allocatable frames); recursive index 300; page-table indices (256,0,510,511)"
    //@ obligation C02 C02.recursive_map_to_2mib.shape_p3_huge.error_adds_at_most_parent_flags tier=thorough bounded="pool of 7 tables (4 path + 3 allocatable); tree-shaped sparse pre-state (target path, one neighbour word per path table, garbage in allocatable frames); recursive index 300; page-table indices (256,0,510,511)"
    //@ obligation C02 C02.recursive_map_to_2mib.shape_p3_huge.huge_leaf_unchanged_on_error tier=thorough bounded="pool of 7 tables (4 path + 3 allocatable); tree-shaped sparse pre-state (target path, one neighbour word per path table, garbage in allocatable frames); recursive index 300; page-table indices (256,0,510,511)"
    //@ obligation C09 C09.recursive_map_to_2mib.shape_p3_huge.only_dictated_slots_change tier=thorough bounded="pool of 7 tables (4 path + 3 allocatable); tree-shaped sparse pre-state (target path, one neighbour word per path table, garbage in allocatable frames); recursive index 300; page-table indices (256,0,510,511)"
    //@ obligation C09 C09.recursive_map_to_2mib.shape_p3_huge.allocator_requests tier=thorough bounded="pool of 7 tables (4 path + 3 allocatable); tree-shaped sparse pre-state (target path, one neighbour word per path table, garbage in allocatable frames); recursive index 300; page-table indices (256,0,510,511)"
    //@ obligation C09 C09.recursive_map_to_2mib.shape_p3_huge.new_tables_zeroed_before_use tier=thorough bounded="pool of 7 tables (4 path + 3 allocatable); tree-shaped sparse pre-state (target path, one neighbour word per path table, garbage in allocatable frames); recursive index 300; page-table indices (256,0,510,511)"
    //@ obligation C09 C09.recursive_map_to_2mib.shape_p3_huge.no_dangling_table_pointer tier=thorough bounded="pool of 7 tables (4 path + 3 allocatable); tree-shaped sparse pre-state (target path, one neighbour word per path table, garbage in allocatable frames); recursive index 300; page-table indices (256,0,510,511)"
    //@ obligation C09 C09.recursive_map_to_2mib.shape_p3_huge.no_access_outside_page_tables tier=thorough bounded="pool of 7 tables (4 path + 3 allocatable); tree-shaped sparse pre-state (target path, one neighbour word per path table, garbage in allocatable frames); recursive index 300; page-table indices (256,0,510,511)"
    //@ obligation C20 C20.recursive_map_to_2mib.uses_recursive_addresses_of_the_page tier=thorough bounded="pool of 7 tables (4 path + 3 allocatable); tree-shaped sparse pre-state (target path, one neighbour word per path table, garbage in allocatable frames); recursive index 300; page-table indices (256,0,510,511)"
    #[kani::proof]
    #[kani::stub(crate::structures::paging::page_table::PageTable::zero, zero_stub)]
    #[kani::stub(crate::addr::VirtAddr::as_mut_ptr, mmu_trap_as_mut_ptr)]
    fn c01_recursive_map_to_2mib_p3_huge_up() {
        rec_map_to_step!(Size2MiB, "2mib", "p3_huge", P3_HUGE, IDX_UP);
        kani::cover!(true, "c01_recursive_map_to_2mib_p3_huge_up: reachable");
    }

    //@ obligation C02 C02.recursive_map_to_2mib.shape_p2_absent.documented_outcome tier=thorough bounded="pool of 7 tables (4 path + 3 allocatable); tree-shaped sparse pre-state (target path, one neighbour word per path table, garbage in allocatable frames); recursive index 300; page-table indices (255,511,0,256)"
    //@ obligation C01 C01.recursive_map_to_2mib.shape_p2_absent.target_translates_to_frame tier=thorough bounded="pool of 7 tables (4 path + 3 allocatable); tree-shaped sparse pre-state (target path, one neighbour word per path table, garbage in allocatable frames); recursive index 300; page-table indices (255,511,0,256)"
    //@ obligation C11 C11.recursive_map_to_2mib.shape_p2_absent.target_translates_to_frame tier=thorough bounded="pool of 7 tables (4 path + 3 allocatable); tree-shaped sparse pre-state (target path, one neighbour word per path table, garbage in allocatable frames); recursive index 300; page-table indices (255,511,0,256)"
    //@ obligation C01 C01.recursive_map_to_2mib.shape_p2_absent.target_leaf_flags tier=thorough bounded="pool of 7 tables (4 path + 3 allocatable); tree-shaped sparse pre-state (target path, one neighbour word per path table, garbage in allocatable frames); recursive index 300; page-table indices (255,511,0,256)"
    //@ obligation C11 C11.recursive_map_to_2mib.shape_p2_absent.target_leaf_flags tier=thorough bounded="pool of 7 tables (4 path + 3 allocatable); tree-shaped sparse pre-state (target path, one neighbour word per path table, garbage in allocatable frames); recursive index 300; page-table indices (255,511,0,256)"
    //@ obligation C01 C01.recursive_map_to_2mib.shape_p2_absent.parent_rights_include_requested tier=thorough bounded="pool of 7 tables (4 path + 3 allocatable); tree-shaped sparse pre-state (target path, one neighbour word per path table, garbage in allocatable frames); recursive index 300; page-table indices (255,511,0,256)"
    //@ obligation C01 C01.recursive_map_to_2mib.shape_p2_absent.other_addresses_unchanged tier=thorough bounded="pool of 7 tables (4 path + 3 allocatable); tree-shaped sparse pre-state (target path, one neighbour word per path table, garbage in allocatable frames); recursive index 300; page-table indices (255,511,0,256)"
    //@ obligation C11 C11.recursive_map_to_2mib.shape_p2_absent.other_addresses_unchanged tier=thorough bounded="pool of 7 tables (4 path + 3 allocatable); tree-shaped sparse pre-state (target path, one neighbour word per path table, garbage in allocatable frames); recursive index 300; page-table indices (255,511,0,256)"
    //@ obligation C01 C01.recursive_map_to_2mib.shape_p2_absent.result_reports_page tier=thorough bounded="pool of 7 tables (4 path + 3 allocatable); tree-shaped sparse pre-state (target path, one neighbour word per path table, garbage in allocatable frames); recursive index 300; page-table indices (255,511,0,256)"
    //@ obligation C11 C11.recursive_map_to_2mib.shape_p2_absent.token_names_page tier=thorough bounded="pool of 7 tables (4 path + 3 allocatable); tree-shaped sparse pre-state (target path, one neighbour word per path table, garbage in allocatable frames); recursive index 300; page-table indices (255,511,0,256)"
    //@ obligation C09 C09.recursive_map_to_2mib.shape_p2_absent.only_dictated_slots_change tier=thorough bounded="pool of 7 tables (4 path + 3 allocatable); tree-shaped sparse pre-state (target path, one neighbour word per path table, garbage in allocatable frames); recursive index 300; page-table indices (255,511,0,256)"
    //@ obligation C09 C09.recursive_map_to_2mib.shape_p2_absent.allocator_requests tier=thorough bounded="pool of 7 tables (4 path + 3 allocatable); tree-shaped sparse pre-state (target path, one neighbour word per path table, garbage in allocatable frames); recursive index 300; page-table indices (255,511,0,256)"
    //@ obligation C09 C09.recursive_map_to_2mib.shape_p2_absent.new_tables_zeroed_before_use tier=thorough bounded="pool of 7 tables (4 path + 3 allocatable); tree-shaped sparse pre-state (target path, one neighbour word per path table, garbage in allocatable frames); recursive index 300; page-table indices (255,511,0,256)"
    //@ obligation C09 C09.recursive_map_to_2mib.shape_p2_absent.no_dangling_table_pointer tier=thorough bounded="pool of 7 tables (4 path + 3 allocatable); tree-shaped sparse pre-state (target path, one neighbour word per path table, garbage in allocatable frames); recursive index 300; page-table indices (255,511,0,256)"
    //@ obligation C09 C09.recursive_map_to_2mib.shape_p2_absent.no_access_outside_page_tables tier=thorough bounded="pool of 7 tables (4 path + 3 allocatable); tree-shaped sparse pre-state (target path, one neighbour word per path table, garbage in allocatable frames); recursive index 300; page-table indices (255,511,0,256)"
    //@ obligation C20 C20.recursive_map_to_2mib.uses_recursive_addresses_of_the_page tier=thorough bounded="pool of 7 tables (4 path + 3 allocatable); tree-shaped sparse pre-state (target path, one neighbour word per path table, garbage in allocatable frames); recursive index 300; page-table indices (255,511,0,256)"
    #[kani::proof]
    #[kani::stub(crate::structures::paging::page_table::PageTable::zero, zero_stub)]
    #[kani::stub(crate::addr::VirtAddr::as_mut_ptr, mmu_trap_as_mut_ptr)]
    fn c01_recursive_map_to_2mib_p2_absent_mid() {
        rec_map_to_step!(Size2MiB, "2mib", "p2_absent", P2_ABSENT, IDX_MID);
        kani::cover!(true, "c01_recursive_map_to_2mib_p2_absent_mid: reachable");
    }

    //@ obligation C02 C02.recursive_map_to_2mib.shape_p2_absent.documented_outcome tier=thorough bounded="pool of 7 tables (4 path + 3 allocatable); tree-shaped sparse pre-state (target path, one neighbour word per path table, garbage in allocatable frames); recursive index 300; page-table indices (256,0,510,511)"
    //@ obligation C01 C01.recursive_map_to_2mib.shape_p2_absent.target_translates_to_frame tier=thorough bounded="pool of 7 tables (4 path + 3 allocatable); tree-shaped sparse pre-state (target path, one neighbour word per path table, garbage in allocatable frames); recursive index 300; page-table indices (256,0,510,511)"
    //@ obligation C11 C11.recursive_map_to_2mib.shape_p2_absent.target_translates_to_frame tier=thorough bounded="pool of 7 tables (4 path + 3 allocatable); tree-shaped sparse pre-state (target path, one neighbour word per path table, garbage in allocatable frames); recursive index 300; page-table indices (256,0,510,511)"
    //@ obligation C01 C01.recursive_map_to_2mib.shape_p2_absent.target_leaf_flags tier=thorough bounded="pool of 7 tables (4 path + 3 allocatable); tree-shaped sparse pre-state (target path, one neighbour word per path table, garbage in allocatable frames); recursive index 300; page-table indices (256,0,510,511)"
    //@ obligation C11 C11.recursive_map_to_2mib.shape_p2_absent.target_leaf_flags tier=thorough bounded="pool of 7 tables (4 path + 3 allocatable); tree-shaped sparse pre-state (target path, one neighbour word per path table, garbage in allocatable frames); recursive index 300; page-table indices (256,0,510,511)"
    //@ obligation C01 C01.recursive_map_to_2mib.shape_p2_absent.parent_rights_include_requested tier=thorough bounded="pool of 7 tables (4 path + 3 allocatable); tree-shaped sparse pre-state (target path, one neighbour word per path table, garbage in allocatable frames); recursive index 300; page-table indices (256,0,510,511)"
    //@ obligation C01 C01.recursive_map_to_2mib.shape_p2_absent.other_addresses_unchanged tier=thorough bounded="pool of 7 tables (4 path + 3 allocatable); tree-shaped sparse pre-state (target path, one neighbour word per path table, garbage in allocatable frames); recursive index 300; page-table indices (256,0,510,511)"
    //@ obligation C11 C11.recursive_map_to_2mib.shape_p2_absent.other_addresses_unchanged tier=thorough bounded="pool of 7 tables (4 path + 3 allocatable); tree-shaped sparse pre-state (target path, one neighbour word per path table, garbage in allocatable frames); recursive index 300; page-table indices (256,0,510,511)"
    //@ obligation C01 C01.recursive_map_to_2mib.shape_p2_absent.result_reports_page tier=thorough bounded="pool of 7 tables (4 path + 3 allocatable); tree-shaped sparse pre-state (target path, one neighbour word per path table, garbage in allocatable frames); recursive index 300; page-table indices (256,0,510,511)"
    //@ obligation C11 C11.recursive_map_to_2mib.shape_p2_absent.token_names_page tier=thorough bounded="pool of 7 tables (4 path + 3 allocatable); tree-shaped sparse pre-state (target path, one neighbour word per path table, garbage in allocatable frames); recursive index 300; page-table indices (256,0,510,511)"
    //@ obligation C09 C09.recursive_map_to_2mib.shape_p2_absent.only_dictated_slots_change tier=thorough bounded="pool of 7 tables (4 path + 3 allocatable); tree-shaped sparse pre-state (target path, one neighbour word per path table, garbage in allocatable frames); recursive index 300; page-table indices (256,0,510,511)"
    //@ obligation C09 C09.recursive_map_to_2mib.shape_p2_absent.allocator_requests tier=thorough bounded="pool of 7 tables (4 path + 3 allocatable); tree-shaped sparse pre-state (target path, one neighbour word per path table, garbage in allocatable frames); recursive index 300; page-table indices (256,0,510,511)"
    //@ obligation C09 C09.recursive_map_to_2mib.shape_p2_absent.new_tables_zeroed_before_use tier=thorough bounded="pool of 7 tables (4 path + 3 allocatable); tree-shaped sparse pre-state (target path, one neighbour word per path table, garbage in allocatable frames); recursive index 300; page-table indices (256,0,510,511)"
    //@ obligation C09 C09.recursive_map_to_2mib.shape_p2_absent.no_dangling_table_pointer tier=thorough bounded="pool of 7 tables (4 path + 3 allocatable); tree-shaped sparse pre-state (target path, one neighbour word per path table, garbage in allocatable frames); recursive index 300; page-table indices (256,0,510,511)"
    //@ obligation C09 C09.recursive_map_to_2mib.shape_p2_absent.no_access_outside_page_tables tier=thorough bounded="pool of 7 tables (4 path + 3 allocatable); tree-shaped sparse pre-state (target path, one neighbour word per path table, garbage in allocatable frames); recursive index 300; page-table indices (256,0,510,511)"
    //@ obligation C20 C20.recursive_map_to_2mib.uses_recursive_addresses_of_the_page tier=thorough bounded="pool of 7 tables (4 path + 3 allocatable); tree-shaped sparse pre-state (target path, one neighbour word per path table, garbage in allocatable frames); recursive index 300; page-table indices (256,0,510,511)"
    #[kani::proof]
    #[kani::stub(crate::structures::paging::page_table::PageTable::zero, zero_stub)]
    #[kani::stub(crate::addr::VirtAddr::as_mut_ptr, mmu_trap_as_mut_ptr)]
    fn c01_recursive_map_to_2mib_p2_absent_up() {
        rec_map_to_step!(Size2MiB, "2mib", "p2_absent", P2_ABSENT, IDX_UP);
        kani::cover!(true, "c01_recursive_map_to_2mib_p2_absent_up: reachable");
    }

    //@ obligation C02 C02.recursive_map_to_2mib.shape_p2_huge.documented_outcome tier=thorough bounded="pool of 7 tables (4 path + 3 allocatable); tree-shaped sparse pre-state (target path, one neighbour word per path table, garbage in allocatable frames); recursive index 300; page-table indices (255,511,0,256)"
    //@ obligation C02 C02.recursive_map_to_2mib.shape_p2_huge.error_leaves_every_mapping tier=thorough bounded="pool of 7 tables (4 path + 3 allocatable); tree-shaped sparse pre-state (target path, one neighbour word per path table, garbage in allocatable frames); recursive index 300; page-table indices (255,511,0,256)"
    //@ obligation C02 C02.recursive_map_to_2mib.shape_p2_huge.error_adds_at_most_parent_flags tier=thorough bounded="pool of 7 tables (4 path + 3 allocatable); tree-shaped sparse pre-state (target path, one neighbour word per path table, garbage in allocatable frames); recursive index 300; page-table indices (255,511,0,256)"
    //@ obligation C01 C01.recursive_map_to_2mib.shape_p2_huge.result_reports_frame tier=thorough bounded="pool of 7 tables (4 path + 3 allocatable); tree-shaped sparse pre-state (target path, one neighbour word per path table, garbage in allocatable frames); recursive index 300; page-table indices (255,511,0,256)"
    //@ obligation C09 C09.recursive_map_to_2mib.shape_p2_huge.only_dictated_slots_change tier=thorough bounded="pool of 7 tables (4 path + 3 allocatable); tree-shaped sparse pre-state (target path, one neighbour word per path table, garbage in allocatable frames); recursive index 300; page-table indices (255,511,0,256)"
    //@ obligation C09 C09.recursive_map_to_2mib.shape_p2_huge.allocator_requests tier=thorough bounded="pool of 7 tables (4 path + 3 allocatable); tree-shaped sparse pre-state (target path, one neighbour word per path table, garbage in allocatable frames); recursive index 300; page-table indices (255,511,0,256)"
    //@ obligation C09 C09.recursive_map_to_2mib.shape_p2_huge.new_tables_zeroed_before_use tier=thorough bounded="pool of 7 tables (4 path + 3 allocatable); tree-shaped sparse pre-state (target path, one neighbour word per path table, garbage in allocatable frames); recursive index 300; page-table indices (255,511,0,256)"
    //@ obligation C09 C09.recursive_map_to_2mib.shape_p2_huge.no_dangling_table_pointer tier=thorough bounded="pool of 7 tables (4 path + 3 allocatable); tree-shaped sparse pre-state (target path, one neighbour word per path table, garbage in allocatable frames); recursive index 300; page-table indices (255,511,0,256)"
    //@ obligation C09 C09.recursive_map_to_2mib.shape_p2_huge.no_access_outside_page_tables tier=thorough bounded="pool of 7 tables (4 path + 3 allocatable); tree-shaped sparse pre-state (target path, one neighbour word per path table, garbage in allocatable frames); recursive index 300; page-table indices (255,511,0,256)"
    //@ obligation C20 C20.recursive_map_to_2mib.uses_recursive_addresses_of_the_page tier=thorough bounded="pool of 7 tables (4 path + 3 allocatable); tree-shaped sparse pre-state (target path, one neighbour word per path table, garbage in allocatable frames); recursive index 300; page-table indices (255,511,0,256)"
    #[kani::proof]
    #[kani::stub(crate::structures::paging::page_table::PageTable::zero, zero_stub)]
    #[kani::stub(crate::addr::VirtAddr::as_mut_ptr, mmu_trap_as_mut_ptr)]
    fn c01_recursive_map_to_2mib_p2_huge_mid() {
        rec_map_to_step!(Size2MiB, "2mib", "p2_huge", P2_HUGE, IDX_MID);
        kani::cover!(true, "c01_recursive_map_to_2mib_p2_huge_mid: reachable");
    }

    //@ obligation C02 C02.recursive_map_to_2mib.shape_p2_huge.documented_outcome tier=thorough bounded="pool of 7 tables (4 path + 3 allocatable); tree-shaped sparse pre-state (target path, one neighbour word per path table, garbage in allocatable frames); recursive index 300; page-table indices (256,0,510,511)"
    //@ obligation C02 C02.recursive_map_to_2mib.shape_p2_huge.error_leaves_every_mapping tier=thorough bounded="pool of 7 tables (4 path + 3 allocatable); tree-shaped sparse pre-state (target path, one neighbour word per path table, garbage in allocatable frames); recursive index 300; page-table indices (256,0,510,511)"
    //@ obligation C02 C02.recursive_map_to_2mib.shape_p2_huge.error_adds_at_most_parent_flags tier=thorough bounded="pool of 7 tables (4 path + 3 allocatable); tree-shaped sparse pre-state (target path, one neighbour word per path table, garbage in allocatable frames); recursive index 300; page-table indices (256,0,510,511)"
    //@ obligation C01 C01.recursive_map_to_2mib.shape_p2_huge.result_reports_frame tier=thorough bounded="pool of 7 tables (4 path + 3 allocatable); tree-shaped sparse pre-state (target path, one neighbour word per path table, garbage in allocatable frames); recursive index 300; page-table indices (256,0,510,511)"
    //@ obligation C09 C09.recursive_map_to_2mib.shape_p2_huge.only_dictated_slots_change tier=thorough bounded="pool of 7 tables (4 path + 3 allocatable); tree-shaped sparse pre-state (target path, one neighbour word per path table, garbage in allocatable frames); recursive index 300; page-table indices (256,0,510,511)"
    //@ obligation C09 C09.recursive_map_to_2mib.shape_p2_huge.allocator_requests tier=thorough bounded="pool of 7 tables (4 path + 3 allocatable); tree-shaped sparse pre-state (target path, one neighbour word per path table, garbage in allocatable frames); recursive index 300; page-table indices (256,0,510,511)"
    //@ obligation C09 C09.recursive_map_to_2mib.shape_p2_huge.new_tables_zeroed_before_use tier=thorough bounded="pool of 7 tables (4 path + 3 allocatable); tree-shaped sparse pre-state (target path, one neighbour word per path table, garbage in allocatable frames); recursive index 300; page-table indices (256,0,510,511)"
    //@ obligation C09 C09.recursive_map_to_2mib.shape_p2_huge.no_dangling_table_pointer tier=thorough bounded="pool of 7 tables (4 path + 3 allocatable); tree-shaped sparse pre-state (target path, one neighbour word per path table, garbage in allocatable frames); recursive index 300; page-table indices (256,0,510,511)"
    //@ obligation C09 C09.recursive_map_to_2mib.shape_p2_huge.no_access_outside_page_tables tier=thorough bounded="pool of 7 tables (4 path + 3 allocatable); tree-shaped sparse pre-state (target path, one neighbour word per path table, garbage in allocatable frames); recursive index 300; page-table indices (256,0,510,511)"
    //@ obligation C20 C20.recursive_map_to_2mib.uses_recursive_addresses_of_the_page tier=thorough bounded="pool of 7 tables (4 path + 3 allocatable); tree-shaped sparse pre-state (target path, one neighbour word per path table, garbage in allocatable frames); recursive index 300; page-table indices (256,0,510,511)"
    #[kani::proof]
    #[kani::stub(crate::structures::paging::page_table::PageTable::zero, zero_stub)]
    #[kani::stub(crate::addr::VirtAddr::as_mut_ptr, mmu_trap_as_mut_ptr)]
    fn c01_recursive_map_to_2mib_p2_huge_up() {
        rec_map_to_step!(Size2MiB, "2mib", "p2_huge", P2_HUGE, IDX_UP);
        kani::cover!(true, "c01_recursive_map_to_2mib_p2_huge_up: reachable");
    }

    //@ obligation C02 C02.recursive_map_to_2mib.shape_p2_table.documented_outcome tier=thorough bounded="pool of 7 tables (4 path + 3 allocatable); tree-shaped sparse pre-state (target path, one neighbour word per path table, garbage in allocatable frames); recursive index 300; page-table indices (255,511,0,256)"
    //@ obligation C02 C02.recursive_map_to_2mib.shape_p2_table.error_leaves_every_mapping tier=thorough bounded="pool of 7 tables (4 path + 3 allocatable); tree-shaped sparse pre-state (target path, one neighbour word per path table, garbage in allocatable frames); recursive index 300; page-table indices (255,511,0,256)"
    //@ obligation C02 C02.recursive_map_to_2mib.shape_p2_table.error_adds_at_most_parent_flags tier=thorough bounded="pool of 7 tables (4 path + 3 allocatable); tree-shaped sparse pre-state (target path, one neighbour word per path table, garbage in allocatable frames); recursive index 300; page-table indices (255,511,0,256)"
    //@ obligation C01 C01.recursive_map_to_2mib.shape_p2_table.result_reports_frame tier=thorough bounded="pool of 7 tables (4 path + 3 allocatable); tree-shaped sparse pre-state (target path, one neighbour word per path table, garbage in allocatable frames); recursive index 300; page-table indices (255,511,0,256)"
    //@ obligation C09 C09.recursive_map_to_2mib.shape_p2_table.only_dictated_slots_change tier=thorough bounded="pool of 7 tables (4 path + 3 allocatable); tree-shaped sparse pre-state (target path, one neighbour word per path table, garbage in allocatable frames); recursive index 300; page-table indices (255,511,0,256)"
    //@ obligation C09 C09.recursive_map_to_2mib.shape_p2_table.allocator_requests tier=thorough bounded="pool of 7 tables (4 path + 3 allocatable); tree-shaped sparse pre-state (target path, one neighbour word per path table, garbage in allocatable frames); recursive index 300; page-table indices (255,511,0,256)"
    //@ obligation C09 C09.recursive_map_to_2mib.shape_p2_table.new_tables_zeroed_before_use tier=thorough bounded="pool of 7 tables (4 path + 3 allocatable); tree-shaped sparse pre-state (target path, one neighbour word per path table, garbage in allocatable frames); recursive index 300; page-table indices (255,511,0,256)"
    //@ obligation C09 C09.recursive_map_to_2mib.shape_p2_table.no_dangling_table_pointer tier=thorough bounded="pool of 7 tables (4 path + 3 allocatable); tree-shaped sparse pre-state (target path, one neighbour word per path table, garbage in allocatable frames); recursive index 300; page-table indices (255,511,0,256)"
    //@ obligation C09 C09.recursive_map_to_2mib.shape_p2_table.no_access_outside_page_tables tier=thorough bounded="pool of 7 tables (4 path + 3 allocatable); tree-shaped sparse pre-state (target path, one neighbour word per path table, garbage in allocatable frames); recursive index 300; page-table indices (255,511,0,256)"
    //@ obligation C20 C20.recursive_map_to_2mib.uses_recursive_addresses_of_the_page tier=thorough bounded="pool of 7 tables (4 path + 3 allocatable); tree-shaped sparse pre-state (target path, one neighbour word per path table, garbage in allocatable frames); recursive index 300; page-table indices (255,511,0,256)"
    #[kani::proof]
    #[kani::stub(crate::structures::paging::page_table::PageTable::zero, zero_stub)]
    #[kani::stub(crate::addr::VirtAddr::as_mut_ptr, mmu_trap_as_mut_ptr)]
    fn c01_recursive_map_to_2mib_p2_table_mid() {
        rec_map_to_step!(Size2MiB, "2mib", "p2_table", P2_TABLE, IDX_MID);
        kani::cover!(true, "c01_recursive_map_to_2mib_p2_table_mid: reachable");
    }

    //@ obligation C02 C02.recursive_map_to_2mib.shape_p2_table.documented_outcome tier=thorough bounded="pool of 7 tables (4 path + 3 allocatable); tree-shaped sparse pre-state (target path, one neighbour word per path table, garbage in allocatable frames); recursive index 300; page-table indices (256,0,510,511)"
    //@ obligation C02 C02.recursive_map_to_2mib.shape_p2_table.error_leaves_every_mapping tier=thorough bounded="pool of 7 tables (4 path + 3 allocatable); tree-shaped sparse pre-state (target path, one neighbour word per path table, garbage in allocatable frames); recursive index 300; page-table indices (256,0,510,511)"
    //@ obligation C02 C02.recursive_map_to_2mib.shape_p2_table.error_adds_at_most_parent_flags tier=thorough bounded="pool of 7 tables (4 path + 3 allocatable); tree-shaped sparse pre-state (target path, one neighbour word per path table, garbage in allocatable frames); recursive index 300; page-table indices (256,0,510,511)"
    //@ obligation C01 C01.recursive_map_to_2mib.shape_p2_table.result_reports_frame tier=thorough bounded="pool of 7 tables (4 path + 3 allocatable); tree-shaped sparse pre-state (target path, one neighbour word per path table, garbage in allocatable frames); recursive index 300; page-table indices (256,0,510,511)"
    //@ obligation C09 C09.recursive_map_to_2mib.shape_p2_table.only_dictated_slots_change tier=thorough bounded="pool of 7 tables (4 path + 3 allocatable); tree-shaped sparse pre-state (target path, one neighbour word per path table, garbage in allocatable frames); recursive index 300; page-table indices (256,0,510,511)"
    //@ obligation C09 C09.recursive_map_to_2mib.shape_p2_table.allocator_requests tier=thorough bounded="pool of 7 tables (4 path + 3 allocatable); tree-shaped sparse pre-state (target path, one neighbour word per path table, garbage in allocatable frames); recursive index 300; page-table indices (256,0,510,511)"
    //@ obligation C09 C09.recursive_map_to_2mib.shape_p2_table.new_tables_zeroed_before_use tier=thorough bounded="pool of 7 tables (4 path + 3 allocatable); tree-shaped sparse pre-state (target path, one neighbour word per path table, garbage in allocatable frames); recursive index 300; page-table indices (256,0,510,511)"
    //@ obligation C09 C09.recursive_map_to_2mib.shape_p2_table.no_dangling_table_pointer tier=thorough bounded="pool of 7 tables (4 path + 3 allocatable); tree-shaped sparse pre-state (target path, one neighbour word per path table, garbage in allocatable frames); recursive index 300; page-table indices (256,0,510,511)"
    //@ obligation C09 C09.recursive_map_to_2mib.shape_p2_table.no_access_outside_page_tables tier=thorough bounded="pool of 7 tables (4 path + 3 allocatable); tree-shaped sparse pre-state (target path, one neighbour word per path table, garbage in allocatable frames); recursive index 300; page-table indices (256,0,510,511)"
    //@ obligation C20 C20.recursive_map_to_2mib.uses_recursive_addresses_of_the_page tier=thorough bounded="pool of 7 tables (4 path + 3 allocatable); tree-shaped sparse pre-state (target path, one neighbour word per path table, garbage in allocatable frames); recursive index 300; page-table indices (256,0,510,511)"
    #[kani::proof]
    #[kani::stub(crate::structures::paging::page_table::PageTable::zero, zero_stub)]
    #[kani::stub(crate::addr::VirtAddr::as_mut_ptr, mmu_trap_as_mut_ptr)]
    fn c01_recursive_map_to_2mib_p2_table_up() {
        rec_map_to_step!(Size2MiB, "2mib", "p2_table", P2_TABLE, IDX_UP);
        kani::cover!(true, "c01_recursive_map_to_2mib_p2_table_up: reachable");
    }

    //@ obligation C02 C02.recursive_map_to_1gib.shape_p4_absent.documented_outcome tier=thorough bounded="pool of 7 tables (4 path + 3 allocatable); tree-shaped sparse pre-state (target path, one neighbour word per path table, garbage in allocatable frames); recursive index 300; page-table indices (255,511,0,256)"
    //@ obligation C01 C01.recursive_map_to_1gib.shape_p4_absent.target_translates_to_frame tier=thorough bounded="pool of 7 tables (4 path + 3 allocatable); tree-shaped sparse pre-state (target path, one neighbour word per path table, garbage in allocatable frames); recursive index 300; page-table indices (255,511,0,256)"
    //@ obligation C11 C11.recursive_map_to_1gib.shape_p4_absent.target_translates_to_frame tier=thorough bounded="pool of 7 tables (4 path + 3 allocatable); tree-shaped sparse pre-state (target path, one neighbour word per path table, garbage in allocatable frames); recursive index 300; page-table indices (255,511,0,256)"
    //@ obligation C01 C01.recursive_map_to_1gib.shape_p4_absent.target_leaf_flags tier=thorough bounded="pool of 7 tables (4 path + 3 allocatable); tree-shaped sparse pre-state (target path, one neighbour word per path table, garbage in allocatable frames); recursive index 300; page-table indices (255,511,0,256)"
    //@ obligation C11 C11.recursive_map_to_1gib.shape_p4_absent.target_leaf_flags tier=thorough bounded="pool of 7 tables (4 path + 3 allocatable); tree-shaped sparse pre-state (target path, one neighbour word per path table, garbage in allocatable frames); recursive index 300; page-table indices (255,511,0,256)"
    //@ obligation C01 C01.recursive_map_to_1gib.shape_p4_absent.parent_rights_include_requested tier=thorough bounded="pool of 7 tables (4 path + 3 allocatable); tree-shaped sparse pre-state (target path, one neighbour word per path table, garbage in allocatable frames); recursive index 300; page-table indices (255,511,0,256)"
    //@ obligation C01 C01.recursive_map_to_1gib.shape_p4_absent.other_addresses_unchanged tier=thorough bounded="pool of 7 tables (4 path + 3 allocatable); tree-shaped sparse pre-state (target path, one neighbour word per path table, garbage in allocatable frames); recursive index 300; page-table indices (255,511,0,256)"
    //@ obligation C11 C11.recursive_map_to_1gib.shape_p4_absent.other_addresses_unchanged tier=thorough bounded="pool of 7 tables (4 path + 3 allocatable); tree-shaped sparse pre-state (target path, one neighbour word per path table, garbage in allocatable frames); recursive index 300; page-table indices (255,511,0,256)"
    //@ obligation C01 C01.recursive_map_to_1gib.shape_p4_absent.result_reports_page tier=thorough bounded="pool of 7 tables (4 path + 3 allocatable); tree-shaped sparse pre-state (target path, one neighbour word per path table, garbage in allocatable frames); recursive index 300; page-table indices (255,511,0,256)"
    //@ obligation C11 C11.recursive_map_to_1gib.shape_p4_absent.token_names_page tier=thorough bounded="pool of 7 tables (4 path + 3 allocatable); tree-shaped sparse pre-state (target path, one neighbour word per path table, garbage in allocatable frames); recursive index 300; page-table indices (255,511,0,256)"
    //@ obligation C02 C02.recursive_map_to_1gib.shape_p4_absent.error_leaves_every_mapping tier=thorough bounded="pool of 7 tables (4 path + 3 allocatable); tree-shaped sparse pre-state (target path, one neighbour word per path table, garbage in allocatable frames); recursive index 300; page-table indices (255,511,0,256)"
    //@ obligation C02 C02.recursive_map_to_1gib.shape_p4_absent.error_adds_at_most_parent_flags tier=thorough bounded="pool of 7 tables (4 path + 3 allocatable); tree-shaped sparse pre-state (target path, one neighbour word per path table, garbage in allocatable frames); recursive index 300; page-table indices (255,511,0,256)"
    //@ obligation C09 C09.recursive_map_to_1gib.shape_p4_absent.only_dictated_slots_change tier=thorough bounded="pool of 7 tables (4 path + 3 allocatable); tree-shaped sparse pre-state (target path, one neighbour word per path table, garbage in allocatable frames); recursive index 300; page-table indices (255,511,0,256)"
    //@ obligation C09 C09.recursive_map_to_1gib.shape_p4_absent.allocator_requests tier=thorough bounded="pool of 7 tables (4 path + 3 allocatable); tree-shaped sparse pre-state (target path, one neighbour word per path table, garbage in allocatable frames); recursive index 300; page-table indices (255,511,0,256)"
    //@ obligation C09 C09.recursive_map_to_1gib.shape_p4_absent.new_tables_zeroed_before_use tier=thorough bounded="pool of 7 tables (4 path + 3 allocatable); tree-shaped sparse pre-state (target path, one neighbour word per path table, garbage in allocatable frames); recursive index 300; page-table indices (255,511,0,256)"
    //@ obligation C09 C09.recursive_map_to_1gib.shape_p4_absent.no_dangling_table_pointer tier=thorough bounded="pool of 7 tables (4 path + 3 allocatable); tree-shaped sparse pre-state (target path, one neighbour word per path table, garbage in allocatable frames); recursive index 300; page-table indices (255,511,0,256)"
    //@ obligation C09 C09.recursive_map_to_1gib.shape_p4_absent.no_access_outside_page_tables tier=thorough bounded="pool of 7 tables (4 path + 3 allocatable); tree-shaped sparse pre-state (target path, one neighbour word per path table, garbage in allocatable frames); recursive index 300; page-table indices (255,511,0,256)"
    //@ obligation C20 C20.recursive_map_to_1gib.uses_recursive_addresses_of_the_page tier=thorough bounded="pool of 7 tables (4 path + 3 allocatable); tree-shaped sparse pre-state (target path, one neighbour word per path table, garbage in allocatable frames); recursive index 300; page-table indices (255,511,0,256)"
    #[kani::proof]
    #[kani::stub(crate::structures::paging::page_table::PageTable::zero, zero_stub)]
    #[kani::stub(crate::addr::VirtAddr::as_mut_ptr, mmu_trap_as_mut_ptr)]
    fn c01_recursive_map_to_1gib_p4_absent_mid() {
        rec_map_to_step!(Size1GiB, "1gib", "p4_absent", P4_ABSENT, IDX_MID);
        kani::cover!(true, "c01_recursive_map_to_1gib_p4_absent_mid: reachable");
    }

    //@ obligation C02 C02.recursive_map_to_1gib.shape_p4_absent.documented_outcome tier=thorough bounded="pool of 7 tables (4 path + 3 allocatable); tree-shaped sparse pre-state (target path, one neighbour word per path table, garbage in allocatable frames); recursive index 300; page-table indices (256,0,510,511)"
    //@ obligation C01 C01.recursive_map_to_1gib.shape_p4_absent.target_translates_to_frame tier=thorough bounded="pool of 7 tables (4 path + 3 allocatable); tree-shaped sparse pre-state (target path, one neighbour word per path table, garbage in allocatable frames); recursive index 300; page-table indices (256,0,510,511)"
    //@ obligation C11 C11.recursive_map_to_1gib.shape_p4_absent.target_translates_to_frame tier=thorough bounded="pool of 7 tables (4 path + 3 allocatable); tree-shaped sparse pre-state (target path, one neighbour word per path table, garbage in allocatable frames); recursive index 300; page-table indices (256,0,510,511)"
    //@ obligation C01 C01.recursive_map_to_1gib.shape_p4_absent.target_leaf_flags tier=thorough bounded="pool of 7 tables (4 path + 3 allocatable); tree-shaped sparse pre-state (target path, one neighbour word per path table, garbage in allocatable frames); recursive index 300; page-table indices (256,0,510,511)"
    //@ obligation C11 C11.recursive_map_to_1gib.shape_p4_absent.target_leaf_flags tier=thorough bounded="pool of 7 tables (4 path + 3 allocatable); tree-shaped sparse pre-state (target path, one neighbour word per path table, garbage in allocatable frames); recursive index 300; page-table indices (256,0,510,511)"
    //@ obligation C01 C01.recursive_map_to_1gib.shape_p4_absent.parent_rights_include_requested tier=thorough bounded="pool of 7 tables (4 path + 3 allocatable); tree-shaped sparse pre-state (target path, one neighbour word per path table, garbage in allocatable frames); recursive index 300; page-table indices (256,0,510,511)"
    //@ obligation C01 C01.recursive_map_to_1gib.shape_p4_absent.other_addresses_unchanged tier=thorough bounded="pool of 7 tables (4 path + 3 allocatable); tree-shaped sparse pre-state (target path, one neighbour word per path table, garbage in allocatable frames); recursive index 300; page-table indices (256,0,510,511)"
    //@ obligation C11 C11.recursive_map_to_1gib.shape_p4_absent.other_addresses_unchanged tier=thorough bounded="pool of 7 tables (4 path + 3 allocatable); tree-shaped sparse pre-state (target path, one neighbour word per path table, garbage in allocatable frames); recursive index 300; page-table indices (256,0,510,511)"
    //@ obligation C01 C01.recursive_map_to_1gib.shape_p4_absent.result_reports_page tier=thorough bounded="pool of 7 tables (4 path + 3 allocatable); tree-shaped sparse pre-state (target path, one neighbour word per path table, garbage in allocatable frames); recursive index 300; page-table indices (256,0,510,511)"
    //@ obligation C11 C11.recursive_map_to_1gib.shape_p4_absent.token_names_page tier=thorough bounded="pool of 7 tables (4 path + 3 allocatable); tree-shaped sparse pre-state (target path, one neighbour word per path table, garbage in allocatable frames); recursive index 300; page-table indices (256,0,510,511)"
    //@ obligation C02 C02.recursive_map_to_1gib.shape_p4_absent.error_leaves_every_mapping tier=thorough bounded="pool of 7 tables (4 path + 3 allocatable); tree-shaped sparse pre-state (target path, one neighbour word per path table, garbage in allocatable frames); recursive index 300; page-table indices (256,0,510,511)"
    //@ obligation C02 C02.recursive_map_to_1gib.shape_p4_absent.error_adds_at_most_parent_flags tier=thorough bounded="pool of 7 tables (4 path + 3 allocatable); tree-shaped sparse pre-state (target path, one neighbour word per path table, garbage in allocatable frames); recursive index 300; page-table indices (256,0,510,511)"
    //@ obligation C09 C09.recursive_map_to_1gib.shape_p4_absent.only_dictated_slots_change tier=thorough bounded="pool of 7 tables (4 path + 3 allocatable); tree-shaped sparse pre-state (target path, one neighbour word per path table, garbage in allocatable frames); recursive index 300; page-table indices (256,0,510,511)"
    //@ obligation C09 C09.recursive_map_to_1gib.shape_p4_absent.allocator_requests tier=thorough bounded="pool of 7 tables (4 path + 3 allocatable); tree-shaped sparse pre-state (target path, one neighbour word per path table, garbage in allocatable frames); recursive index 300; page-table indices (256,0,510,511)"
    //@ obligation C09 C09.recursive_map_to_1gib.shape_p4_absent.new_tables_zeroed_before_use tier=thorough bounded="pool of 7 tables (4 path + 3 allocatable); tree-shaped sparse pre-state (target path, one neighbour word per path table, garbage in allocatable frames); recursive index 300; page-table indices (256,0,510,511)"
    //@ obligation C09 C09.recursive_map_to_1gib.shape_p4_absent.no_dangling_table_pointer tier=thorough bounded="pool of 7 tables (4 path + 3 allocatable); tree-shaped sparse pre-state (target path, one neighbour word per path table, garbage in allocatable frames); recursive index 300; page-table indices (256,0,510,511)"
    //@ obligation C09 C09.recursive_map_to_1gib.shape_p4_absent.no_access_outside_page_tables tier=thorough bounded="pool of 7 tables (4 path + 3 allocatable); tree-shaped sparse pre-state (target path, one neighbour word per path table, garbage in allocatable frames); recursive index 300; page-table indices (256,0,510,511)"
    //@ obligation C20 C20.recursive_map_to_1gib.uses_recursive_addresses_of_the_page tier=thorough bounded="pool of 7 tables (4 path + 3 allocatable); tree-shaped sparse pre-state (target path, one neighbour word per path table, garbage in allocatable frames); recursive index 300; page-table indices (256,0,510,511)"
    #[kani::proof]
    #[kani::stub(crate::structures::paging::page_table::PageTable::zero, zero_stub)]
    #[kani::stub(crate::addr::VirtAddr::as_mut_ptr, mmu_trap_as_mut_ptr)]
    fn c01_recursive_map_to_1gib_p4_absent_up() {
        rec_map_to_step!(Size1GiB, "1gib", "p4_absent", P4_ABSENT, IDX_UP);
        kani::cover!(true, "c01_recursive_map_to_1gib_p4_absent_up: reachable");
    }

    //@ obligation C02 C02.recursive_map_to_1gib.shape_p3_absent.documented_outcome tier=thorough bounded="pool of 7 tables (4 path + 3 allocatable); tree-shaped sparse pre-state (target path, one neighbour word per path table, garbage in allocatable frames); recursive index 300; page-table indices (255,511,0,256)"
    //@ obligation C01 C01.recursive_map_to_1gib.shape_p3_absent.target_translates_to_frame tier=thorough bounded="pool of 7 tables (4 path + 3 allocatable); tree-shaped sparse pre-state (target path, one neighbour word per path table, garbage in allocatable frames); recursive index 300; page-table indices (255,511,0,256)"
    //@ obligation C11 C11.recursive_map_to_1gib.shape_p3_absent.target_translates_to_frame tier=thorough bounded="pool of 7 tables (4 path + 3 allocatable); tree-shaped sparse pre-state (target path, one neighbour word per path table, garbage in allocatable frames); recursive index 300; page-table indices (255,511,0,256)"
    //@ obligation C01 C01.recursive_map_to_1gib.shape_p3_absent.target_leaf_flags tier=thorough bounded="pool of 7 tables (4 path + 3 allocatable); tree-shaped sparse pre-state (target path, one neighbour word per path table, garbage in allocatable frames); recursive index 300; page-table indices (255,511,0,256)"
    //@ obligation C11 C11.recursive_map_to_1gib.shape_p3_absent.target_leaf_flags tier=thorough bounded="pool of 7 tables (4 path + 3 allocatable); tree-shaped sparse pre-state (target path, one neighbour word per path table, garbage in allocatable frames); recursive index 300; page-table indices (255,511,0,256)"
    //@ obligation C01 C01.recursive_map_to_1gib.shape_p3_absent.parent_rights_include_requested tier=thorough bounded="pool of 7 tables (4 path + 3 allocatable); tree-shaped sparse pre-state (target path, one neighbour word per path table, garbage in allocatable frames); recursive index 300; page-table indices (255,511,0,256)"
    //@ obligation C01 C01.recursive_map_to_1gib.shape_p3_absent.other_addresses_unchanged tier=thorough bounded="pool of 7 tables (4 path + 3 allocatable); tree-shaped sparse pre-state (target path, one neighbour word per path table, garbage in allocatable frames); recursive index 300; page-table indices (255,511,0,256)"
    //@ obligation C11 C11.recursive_map_to_1gib.shape_p3_absent.other_addresses_unchanged tier=thorough bounded="pool of 7 tables (4 path + 3 allocatable); tree-shaped sparse pre-state (target path, one neighbour word per path table, garbage in allocatable frames); recursive index 300; page-table indices (255,511,0,256)"
    //@ obligation C01 C01.recursive_map_to_1gib.shape_p3_absent.result_reports_page tier=thorough bounded="pool of 7 tables (4 path + 3 allocatable); tree-shaped sparse pre-state (target path, one neighbour word per path table, garbage in allocatable frames); recursive index 300; page-table indices (255,511,0,256)"
    //@ obligation C11 C11.recursive_map_to_1gib.shape_p3_absent.token_names_page tier=thorough bounded="pool of 7 tables (4 path + 3 allocatable); tree-shaped sparse pre-state (target path, one neighbour word per path table, garbage in allocatable frames); recursive index 300; page-table indices (255,511,0,256)"
    //@ obligation C09 C09.recursive_map_to_1gib.shape_p3_absent.only_dictated_slots_change tier=thorough bounded="pool of 7 tables (4 path + 3 allocatable); tree-shaped sparse pre-state (target path, one neighbour word per path table, garbage in allocatable frames); recursive index 300; page-table indices (255,511,0,256)"
    //@ obligation C09 C09.recursive_map_to_1gib.shape_p3_absent.allocator_requests tier=thorough bounded="pool of 7 tables (4 path + 3 allocatable); tree-shaped sparse pre-state (target path, one neighbour word per path table, garbage in allocatable frames); recursive index 300; page-table indices (255,511,0,256)"
    //@ obligation C09 C09.recursive_map_to_1gib.shape_p3_absent.new_tables_zeroed_before_use tier=thorough bounded="pool of 7 tables (4 path + 3 allocatable); tree-shaped sparse pre-state (target path, one neighbour word per path table, garbage in allocatable frames); recursive index 300; page-table indices (255,511,0,256)"
    //@ obligation C09 C09.recursive_map_to_1gib.shape_p3_absent.no_dangling_table_pointer tier=thorough bounded="pool of 7 tables (4 path + 3 allocatable); tree-shaped sparse pre-state (target path, one neighbour word per path table, garbage in allocatable frames); recursive index 300; page-table indices (255,511,0,256)"
    //@ obligation C09 C09.recursive_map_to_1gib.shape_p3_absent.no_access_outside_page_tables tier=thorough bounded="pool of 7 tables (4 path + 3 allocatable); tree-shaped sparse pre-state (target path, one neighbour word per path table, garbage in allocatable frames); recursive index 300; page-table indices (255,511,0,256)"
    //@ obligation C20 C20.recursive_map_to_1gib.uses_recursive_addresses_of_the_page tier=thorough bounded="pool of 7 tables (4 path + 3 allocatable); tree-shaped sparse pre-state (target path, one neighbour word per path table, garbage in allocatable frames); recursive index 300; page-table indices (255,511,0,256)"
    #[kani::proof]
    #[kani::stub(crate::structures::paging::page_table::PageTable::zero, zero_stub)]
    #[kani::stub(crate::addr::VirtAddr::as_mut_ptr, mmu_trap_as_mut_ptr)]
    fn c01_recursive_map_to_1gib_p3_absent_mid() {
        rec_map_to_step!(Size1GiB, "1gib", "p3_absent", P3_ABSENT, IDX_MID);
        kani::cover!(true, "c01_recursive_map_to_1gib_p3_absent_mid: reachable");
    }

    //@ obligation C02 C02.recursive_map_to_1gib.shape_p3_absent.documented_outcome bounded="pool of 7 tables (4 path + 3 allocatable); tree-shaped sparse pre-state (target path, one neighbour word per path table, garbage in allocatable frames); recursive index 300; page-table indices (256,0,510,511)"
    //@ obligation C01 C01.recursive_map_to_1gib.shape_p3_absent.target_translates_to_frame bounded="pool of 7 tables (4 path + 3 allocatable); tree-shaped sparse pre-state (target path, one neighbour word per path table, garbage in allocatable frames); recursive index 300; page-table indices (256,0,510,511)"
    //@ obligation C11 C11.recursive_map_to_1gib.shape_p3_absent.target_translates_to_frame bounded="pool of 7 tables (4 path + 3 allocatable); tree-shaped sparse pre-state (target path, one neighbour word per path table, garbage in allocatable frames); recursive index 300; page-table indices (256,0,510,511)"
    //@ obligation C01 C01.recursive_map_to_1gib.shape_p3_absent.target_leaf_flags bounded="pool of 7 tables (4 path + 3 allocatable); tree-shaped sparse pre-state (target path, one neighbour word per path table, garbage in allocatable frames); recursive index 300; page-table indices (256,0,510,511)"
    //@ obligation C11 C11.recursive_map_to_1gib.shape_p3_absent.target_leaf_flags bounded="pool of 7 tables (4 path + 3 allocatable); tree-shaped sparse pre-state (target path, one neighbour word per path table, garbage in allocatable frames); recursive index 300; page-table indices (256,0,510,511)"
    //@ obligation C01 C01.recursive_map_to_1gib.shape_p3_absent.parent_rights_include_requested bounded="pool of 7 tables (4 path + 3 allocatable); tree-shaped sparse pre-state (target path, one neighbour word per path table, garbage in allocatable frames); recursive index 300; page-table indices (256,0,510,511)"
    //@ obligation C01 C01.recursive_map_to_1gib.shape_p3_absent.other_addresses_unchanged bounded="pool of 7 tables (4 path + 3 allocatable); tree-shaped sparse pre-state (target path, one neighbour word per path table, garbage in allocatable frames); recursive index 300; page-table indices (256,0,510,511)"
    //@ obligation C11 C11.recursive_map_to_1gib.shape_p3_absent.other_addresses_unchanged bounded="pool of 7 tables (4 path + 3 allocatable); tree-shaped sparse pre-state (target path, one neighbour word per path table, garbage in allocatable frames); recursive index 300; page-table indices (256,0,510,511)"
    //@ obligation C01 C01.recursive_map_to_1gib.shape_p3_absent.result_reports_page bounded="pool of 7 tables (4 path + 3 allocatable); tree-shaped sparse pre-state (target path, one neighbour word per path table, garbage in allocatable frames); recursive index 300; page-table indices (256,0,510,511)"
    //@ obligation C11 C11.recursive_map_to_1gib.shape_p3_absent.token_names_page bounded="pool of 7 tables (4 path + 3 allocatable); tree-shaped sparse pre-state (target path, one neighbour word per path table, garbage in allocatable frames); recursive index 300; page-table indices (256,0,510,511)"
    //@ obligation C09 C09.recursive_map_to_1gib.shape_p3_absent.only_dictated_slots_change bounded="pool of 7 tables (4 path + 3 allocatable); tree-shaped sparse pre-state (target path, one neighbour word per path table, garbage in allocatable frames); recursive index 300; page-table indices (256,0,510,511)"
    //@ obligation C09 C09.recursive_map_to_1gib.shape_p3_absent.allocator_requests bounded="pool of 7 tables (4 path + 3 allocatable); tree-shaped sparse pre-state (target path, one neighbour word per path table, garbage in allocatable frames); recursive index 300; page-table indices (256,0,510,511)"
    //@ obligation C09 C09.recursive_map_to_1gib.shape_p3_absent.new_tables_zeroed_before_use bounded="pool of 7 tables (4 path + 3 allocatable); tree-shaped sparse pre-state (target path, one neighbour word per path table, garbage in allocatable frames); recursive index 300; page-table indices (256,0,510,511)"
    //@ obligation C09 C09.recursive_map_to_1gib.shape_p3_absent.no_dangling_table_pointer bounded="pool of 7 tables (4 path + 3 allocatable); tree-shaped sparse pre-state (target path, one neighbour word per path table, garbage in allocatable frames); recursive index 300; page-table indices (256,0,510,511)"
    //@ obligation C09 C09.recursive_map_to_1gib.shape_p3_absent.no_access_outside_page_tables bounded="pool of 7 tables (4 path + 3 allocatable); tree-shaped sparse pre-state (target path, one neighbour word per path table, garbage in allocatable frames); recursive index 300; page-table indices (256,0,510,511)"
    //@ obligation C20 C20.recursive_map_to_1gib.uses_recursive_addresses_of_the_page bounded="pool of 7 tables (4 path + 3 allocatable); tree-shaped sparse pre-state (target path, one neighbour word per path table, garbage in allocatable frames); recursive index 300; page-table indices (256,0,510,511)"
    #[kani::proof]
    #[kani::stub(crate::structures::paging::page_table::PageTable::zero, zero_stub)]
    #[kani::stub(crate::addr::VirtAddr::as_mut_ptr, mmu_trap_as_mut_ptr)]
    fn c01_recursive_map_to_1gib_p3_absent_up() {
        rec_map_to_step!(Size1GiB, "1gib", "p3_absent", P3_ABSENT, IDX_UP);
        kani::cover!(true, "c01_recursive_map_to_1gib_p3_absent_up: reachable");
    }

    //@ obligation C02 C02.recursive_map_to_1gib.shape_p3_huge.documented_outcome tier=thorough bounded="pool of 7 tables (4 path + 3 allocatable); tree-shaped sparse pre-state (target path, one neighbour word per path table, garbage in allocatable frames); recursive index 300; page-table indices (255,511,0,256)"
    //@ obligation C02 C02.recursive_map_to_1gib.shape_p3_huge.error_leaves_every_mapping tier=thorough bounded="pool of 7 tables (4 path + 3 allocatable); tree-shaped sparse pre-state (target path, one neighbour word per path table, garbage in allocatable frames); recursive index 300; page-table indices (255,511,0,256)"
    //@ obligation C02 C02.recursive_map_to_1gib.shape_p3_huge.error_adds_at_most_parent_flags tier=thorough bounded="pool of 7 tables (4 path + 3 allocatable); tree-shaped sparse pre-state (target path, one neighbour word per path table, garbage in allocatable frames); recursive index 300; page-table indices (255,511,0,256)"
    //@ obligation C01 C01.recursive_map_to_1gib.shape_p3_huge.result_reports_frame tier=thorough bounded="pool of 7 tables (4 path + 3 allocatable); tree-shaped sparse pre-state (target path, one neighbour word per path table, garbage in allocatable frames); recursive index 300; page-table indices (255,511,0,256)"
    //@ obligation C09 C09.recursive_map_to_1gib.shape_p3_huge.only_dictated_slots_change tier=thorough bounded="pool of 7 tables (4 path + 3 allocatable); tree-shaped sparse pre-state (target path, one neighbour word per path table, garbage in allocatable frames); recursive index 300; page-table indices (255,511,0,256)"
    //@ obligation C09 C09.recursive_map_to_1gib.shape_p3_huge.allocator_requests tier=thorough bounded="pool of 7 tables (4 path + 3 allocatable); tree-shaped sparse pre-state (target path, one neighbour word per path table, garbage in allocatable frames); recursive index 300; page-table indices (255,511,0,256)"
    //@ obligation C09 C09.recursive_map_to_1gib.shape_p3_huge.new_tables_zeroed_before_use tier=thorough bounded="pool of 7 tables (4 path + 3 allocatable); tree-shaped sparse pre-state (target path, one neighbour word per path table, garbage in allocatable frames); recursive index 300; page-table indices (255,511,0,256)"
    //@ obligation C09 C09.recursive_map_to_1gib.shape_p3_huge.no_dangling_table_pointer tier=thorough bounded="pool of 7 tables (4 path + 3 allocatable); tree-shaped sparse pre-state (target path, one neighbour word per path table, garbage in allocatable frames); recursive index 300; page-table indices (255,511,0,256)"
    //@ obligation C09 C09.recursive_map_to_1gib.shape_p3_huge.no_access_outside_page_tables tier=thorough bounded="pool of 7 tables (4 path + 3 allocatable); tree-shaped sparse pre-state (target path, one neighbour word per path table, garbage in allocatable frames); recursive index 300; page-table indices (255,511,0,256)"
    //@ obligation C20 C20.recursive_map_to_1gib.uses_recursive_addresses_of_the_page tier=thorough bounded="pool of 7 tables (4 path + 3 allocatable); tree-shaped sparse pre-state (target path, one neighbour word per path table, garbage in allocatable frames); recursive index 300; page-table indices (255,511,0,256)"
    #[kani::proof]
    #[kani::stub(crate::structures::paging::page_table::PageTable::zero, zero_stub)]
    #[kani::stub(crate::addr::VirtAddr::as_mut_ptr, mmu_trap_as_mut_ptr)]
    fn c01_recursive_map_to_1gib_p3_huge_mid() {
        rec_map_to_step!(Size1GiB, "1gib", "p3_huge", P3_HUGE, IDX_MID);
        kani::cover!(true, "c01_recursive_map_to_1gib_p3_huge_mid: reachable");
    }

    //@ obligation C02 C02.recursive_map_to_1gib.shape_p3_huge.documented_outcome tier=thorough bounded="pool of 7 tables (4 path + 3 allocatable); tree-shaped sparse pre-state (target path, one neighbour word per path table, garbage in allocatable frames); recursive index 300; page-table indices (256,0,510,511)"
    //@ obligation C02 C02.recursive_map_to_1gib.shape_p3_huge.error_leaves_every_mapping tier=thorough bounded="pool of 7 tables (4 path + 3 allocatable); tree-shaped sparse pre-state (target path, one neighbour word per path table, garbage in allocatable frames); recursive index 300; page-table indices (256,0,510,511)"
    //@ obligation C02 C02.recursive_map_to_1gib.shape_p3_huge.error_adds_at_most_parent_flags tier=thorough bounded="pool of 7 tables (4 path + 3 allocatable); tree-shaped sparse pre-state (target path, one neighbour word per path table, garbage in allocatable frames); recursive index 300; page-table indices (256,0,510,511)"
    //@ obligation C01 C01.recursive_map_to_1gib.shape_p3_huge.result_reports_frame tier=thorough bounded="pool of 7 tables (4 path + 3 allocatable); tree-shaped sparse pre-state (target path, one neighbour word per path table, garbage in allocatable frames); recursive index 300; page-table indices (256,0,510,511)"
    //@ obligation C09 C09.recursive_map_to_1gib.shape_p3_huge.only_dictated_slots_change tier=thorough bounded="pool of 7 tables (4 path + 3 allocatable); tree-shaped sparse pre-state (target path, one neighbour word per path table, garbage in allocatable frames); recursive index 300; page-table indices (256,0,510,511)"
    //@ obligation C09 C09.recursive_map_to_1gib.shape_p3_huge.allocator_requests tier=thorough bounded="pool of 7 tables (4 path + 3 allocatable); tree-shaped sparse pre-state (target path, one neighbour word per path table, garbage in allocatable frames); recursive index 300; page-table indices (256,0,510,511)"
    //@ obligation C09 C09.recursive_map_to_1gib.shape_p3_huge.new_tables_zeroed_before_use tier=thorough bounded="pool of 7 tables (4 path + 3 allocatable); tree-shaped sparse pre-state (target path, one neighbour word per path table, garbage in allocatable frames); recursive index 300; page-table indices (256,0,510,511)"
    //@ obligation C09 C09.recursive_map_to_1gib.shape_p3_huge.no_dangling_table_pointer tier=thorough bounded="pool of 7 tables (4 path + 3 allocatable); tree-shaped sparse pre-state (target path, one neighbour word per path table, garbage in allocatable frames); recursive index 300; page-table indices (256,0,510,511)"
    //@ obligation C09 C09.recursive_map_to_1gib.shape_p3_huge.no_access_outside_page_tables tier=thorough bounded="pool of 7 tables (4 path + 3 allocatable); tree-shaped sparse pre-state (target path, one neighbour word per path table, garbage in allocatable frames); recursive index 300; page-table indices (256,0,510,511)"
    //@ obligation C20 C20.recursive_map_to_1gib.uses_recursive_addresses_of_the_page tier=thorough bounded="pool of 7 tables (4 path + 3 allocatable); tree-shaped sparse pre-state (target path, one neighbour word per path table, garbage in allocatable frames); recursive index 300; page-table indices (256,0,510,511)"
    #[kani::proof]
    #[kani::stub(crate::structures::paging::page_table::PageTable::zero, zero_stub)]
    #[kani::stub(crate::addr::VirtAddr::as_mut_ptr, mmu_trap_as_mut_ptr)]
    fn c01_recursive_map_to_1gib_p3_huge_up() {
        rec_map_to_step!(Size1GiB, "1gib", "p3_huge", P3_HUGE, IDX_UP);
        kani::cover!(true, "c01_recursive_map_to_1gib_p3_huge_up: reachable");
    }

    //@ obligation C02 C02.recursive_map_to_1gib.shape_p3_table.documented_outcome tier=thorough bounded="pool of 7 tables (4 path + 3 allocatable); tree-shaped sparse pre-state (target path, one neighbour word per path table, garbage in allocatable frames); recursive index 300; page-table indices (255,511,0,256)"
    //@ obligation C02 C02.recursive_map_to_1gib.shape_p3_table.error_leaves_every_mapping tier=thorough bounded="pool of 7 tables (4 path + 3 allocatable); tree-shaped sparse pre-state (target path, one neighbour word per path table, garbage in allocatable frames); recursive index 300; page-table indices (255,511,0,256)"
    //@ obligation C02 C02.recursive_map_to_1gib.shape_p3_table.error_adds_at_most_parent_flags tier=thorough bounded="pool of 7 tables (4 path + 3 allocatable); tree-shaped sparse pre-state (target path, one neighbour word per path table, garbage in allocatable frames); recursive index 300; page-table indices (255,511,0,256)"
    //@ obligation C01 C01.recursive_map_to_1gib.shape_p3_table.result_reports_frame tier=thorough bounded="pool of 7 tables (4 path + 3 allocatable); tree-shaped sparse pre-state (target path, one neighbour word per path table, garbage in allocatable frames); recursive index 300; page-table indices (255,511,0,256)"
    //@ obligation C09 C09.recursive_map_to_1gib.shape_p3_table.only_dictated_slots_change tier=thorough bounded="pool of 7 tables (4 path + 3 allocatable); tree-shaped sparse pre-state (target path, one neighbour word per path table, garbage in allocatable frames); recursive index 300; page-table indices (255,511,0,256)"
    //@ obligation C09 C09.recursive_map_to_1gib.shape_p3_table.allocator_requests tier=thorough bounded="pool of 7 tables (4 path + 3 allocatable); tree-shaped sparse pre-state (target path, one neighbour word per path table, garbage in allocatable frames); recursive index 300; page-table indices (255,511,0,256)"
    //@ obligation C09 C09.recursive_map_to_1gib.shape_p3_table.new_tables_zeroed_before_use tier=thorough bounded="pool of 7 tables (4 path + 3 allocatable); tree-shaped sparse pre-state (target path, one neighbour word per path table, garbage in allocatable frames); recursive index 300; page-table indices (255,511,0,256)"
    //@ obligation C09 C09.recursive_map_to_1gib.shape_p3_table.no_dangling_table_pointer tier=thorough bounded="pool of 7 tables (4 path + 3 allocatable); tree-shaped sparse pre-state (target path, one neighbour word per path table, garbage in allocatable frames); recursive index 300; page-table indices (255,511,0,256)"
    //@ obligation C09 C09.recursive_map_to_1gib.shape_p3_table.no_access_outside_page_tables tier=thorough bounded="pool of 7 tables (4 path + 3 allocatable); tree-shaped sparse pre-state (target path, one neighbour word per path table, garbage in allocatable frames); recursive index 300; page-table indices (255,511,0,256)"
    //@ obligation C20 C20.recursive_map_to_1gib.uses_recursive_addresses_of_the_page tier=thorough bounded="pool of 7 tables (4 path + 3 allocatable); tree-shaped sparse pre-state (target path, one neighbour word per path table, garbage in allocatable frames); recursive index 300; page-table indices (255,511,0,256)"
    #[kani::proof]
    #[kani::stub(crate::structures::paging::page_table::PageTable::zero, zero_stub)]
    #[kani::stub(crate::addr::VirtAddr::as_mut_ptr, mmu_trap_as_mut_ptr)]
    fn c01_recursive_map_to_1gib_p3_table_mid() {
        rec_map_to_step!(Size1GiB, "1gib", "p3_table", P3_TABLE, IDX_MID);
        kani::cover!(true, "c01_recursive_map_to_1gib_p3_table_mid: reachable");
    }

    //@ obligation C02 C02.recursive_map_to_1gib.shape_p3_table.documented_outcome tier=thorough bounded="pool of 7 tables (4 path + 3 allocatable); tree-shaped sparse pre-state (target path, one neighbour word per path table, garbage in allocatable frames); recursive index 300; page-table indices (256,0,510,511)"
    //@ obligation C02 C02.recursive_map_to_1gib.shape_p3_table.error_leaves_every_mapping tier=thorough bounded="pool of 7 tables (4 path + 3 allocatable); tree-shaped sparse pre-state (target path, one neighbour word per path table, garbage in allocatable frames); recursive index 300; page-table indices (256,0,510,511)"
    //@ obligation C02 C02.recursive_map_to_1gib.shape_p3_table.error_adds_at_most_parent_flags tier=thorough bounded="pool of 7 tables (4 path + 3 allocatable); tree-shaped sparse pre-state (target path, one neighbour word per path table, garbage in allocatable frames); recursive index 300; page-table indices (256,0,510,511)"
    //@ obligation C01 C01.recursive_map_to_1gib.shape_p3_table.result_reports_frame tier=thorough bounded="pool of 7 tables (4 path + 3 allocatable); tree-shaped sparse pre-state (target path, one neighbour word per path table, garbage in allocatable frames); recursive index 300; page-table indices (256,0,510,511)"
    //@ obligation C09 C09.recursive_map_to_1gib.shape_p3_table.only_dictated_slots_change tier=thorough bounded="pool of 7 tables (4 path + 3 allocatable); tree-shaped sparse pre-state (target path, one neighbour word per path table, garbage in allocatable frames); recursive index 300; page-table indices (256,0,510,511)"
    //@ obligation C09 C09.recursive_map_to_1gib.shape_p3_table.allocator_requests tier=thorough bounded="pool of 7 tables (4 path + 3 allocatable); tree-shaped sparse pre-state (target path, one neighbour word per path table, garbage in allocatable frames); recursive index 300; page-table indices (256,0,510,511)"
    //@ obligation C09 C09.recursive_map_to_1gib.shape_p3_table.new_tables_zeroed_before_use tier=thorough bounded="pool of 7 tables (4 path + 3 allocatable); tree-shaped sparse pre-state (target path, one neighbour word per path table, garbage in allocatable frames); recursive index 300; page-table indices (256,0,510,511)"
    //@ obligation C09 C09.recursive_map_to_1gib.shape_p3_table.no_dangling_table_pointer tier=thorough bounded="pool of 7 tables (4 path + 3 allocatable); tree-shaped sparse pre-state (target path, one neighbour word per path table, garbage in allocatable frames); recursive index 300; page-table indices (256,0,510,511)"
    //@ obligation C09 C09.recursive_map_to_1gib.shape_p3_table.no_access_outside_page_tables tier=thorough bounded="pool of 7 tables (4 path + 3 allocatable); tree-shaped sparse pre-state (target path, one neighbour word per path table, garbage in allocatable frames); recursive index 300; page-table indices (256,0,510,511)"
    //@ obligation C20 C20.recursive_map_to_1gib.uses_recursive_addresses_of_the_page tier=thorough bounded="pool of 7 tables (4 path + 3 allocatable); tree-shaped sparse pre-state (target path, one neighbour word per path table, garbage in allocatable frames); recursive index 300; page-table indices (256,0,510,511)"
    #[kani::proof]
    #[kani::stub(crate::structures::paging::page_table::PageTable::zero, zero_stub)]
    #[kani::stub(crate::addr::VirtAddr::as_mut_ptr, mmu_trap_as_mut_ptr)]
    fn c01_recursive_map_to_1gib_p3_table_up() {
        rec_map_to_step!(Size1GiB, "1gib", "p3_table", P3_TABLE, IDX_UP);
        kani::cover!(true, "c01_recursive_map_to_1gib_p3_table_up: reachable");
    }

    //@ obligation C02 C02.recursive_unmap_2mib.shape_p4_absent.documented_outcome tier=thorough bounded="pool of 7 tables (4 path + 3 allocatable); tree-shaped sparse pre-state (target path, one neighbour word per path table, garbage in allocatable frames); recursive index 300; page-table indices (255,511,0,256)"
    //@ obligation C02 C02.recursive_unmap_2mib.shape_p4_absent.error_leaves_every_mapping tier=thorough bounded="pool of 7 tables (4 path + 3 allocatable); tree-shaped sparse pre-state (target path, one neighbour word per path table, garbage in allocatable frames); recursive index 300; page-table indices (255,511,0,256)"
    //@ obligation C09 C09.recursive_unmap_2mib.shape_p4_absent.only_dictated_slots_change tier=thorough bounded="pool of 7 tables (4 path + 3 allocatable); tree-shaped sparse pre-state (target path, one neighbour word per path table, garbage in allocatable frames); recursive index 300; page-table indices (255,511,0,256)"
    //@ obligation C09 C09.recursive_unmap_2mib.shape_p4_absent.no_frames_requested_or_zeroed tier=thorough bounded="pool of 7 tables (4 path + 3 allocatable); tree-shaped sparse pre-state (target path, one neighbour word per path table, garbage in allocatable frames); recursive index 300; page-table indices (255,511,0,256)"
    //@ obligation C09 C09.recursive_unmap_2mib.shape_p4_absent.no_dangling_table_pointer tier=thorough bounded="pool of 7 tables (4 path + 3 allocatable); tree-shaped sparse pre-state (target path, one neighbour word per path table, garbage in allocatable frames); recursive index 300; page-table indices (255,511,0,256)"
    //@ obligation C09 C09.recursive_unmap_2mib.shape_p4_absent.no_access_outside_page_tables tier=thorough bounded="pool of 7 tables (4 path + 3 allocatable); tree-shaped sparse pre-state (target path, one neighbour word per path table, garbage in allocatable frames); recursive index 300; page-table indices (255,511,0,256)"
    #[kani::proof]
    #[kani::stub(crate::structures::paging::page_table::PageTable::zero, zero_stub)]
    #[kani::stub(crate::addr::VirtAddr::as_mut_ptr, mmu_trap_as_mut_ptr)]
    fn c01_recursive_unmap_2mib_p4_absent_mid() {
        rec_unmap_step!(Size2MiB, "2mib", "p4_absent", P4_ABSENT, IDX_MID);
        kani::cover!(true, "c01_recursive_unmap_2mib_p4_absent_mid: reachable");
    }

    //@ obligation C02 C02.recursive_unmap_2mib.shape_p4_absent.documented_outcome bounded="pool of 7 tables (4 path + 3 allocatable); tree-shaped sparse pre-state (target path, one neighbour word per path table, garbage in allocatable frames); recursive index 300; page-table indices (256,0,510,511)"
    //@ obligation C02 C02.recursive_unmap_2mib.shape_p4_absent.error_leaves_every_mapping bounded="pool of 7 tables (4 path + 3 allocatable); tree-shaped sparse pre-state (target path, one neighbour word per path table, garbage in allocatable frames); recursive index 300; page-table indices (256,0,510,511)"
    //@ obligation C09 C09.recursive_unmap_2mib.shape_p4_absent.only_dictated_slots_change bounded="pool of 7 tables (4 path + 3 allocatable); tree-shaped sparse pre-state (target path, one neighbour word per path table, garbage in allocatable frames); recursive index 300; page-table indices (256,0,510,511)"
    //@ obligation C09 C09.recursive_unmap_2mib.shape_p4_absent.no_frames_requested_or_zeroed bounded="pool of 7 tables (4 path + 3 allocatable); tree-shaped sparse pre-state (target path, one neighbour word per path table, garbage in allocatable frames); recursive index 300; page-table indices (256,0,510,511)"
    //@ obligation C09 C09.recursive_unmap_2mib.shape_p4_absent.no_dangling_table_pointer bounded="pool of 7 tables (4 path + 3 allocatable); tree-shaped sparse pre-state (target path, one neighbour word per path table, garbage in allocatable frames); recursive index 300; page-table indices (256,0,510,511)"
    //@ obligation C09 C09.recursive_unmap_2mib.shape_p4_absent.no_access_outside_page_tables bounded="pool of 7 tables (4 path + 3 allocatable); tree-shaped sparse pre-state (target path, one neighbour word per path table, garbage in allocatable frames); recursive index 300; page-table indices (256,0,510,511)"
    #[kani::proof]
    #[kani::stub(crate::structures::paging::page_table::PageTable::zero, zero_stub)]
    #[kani::stub(crate::addr::VirtAddr::as_mut_ptr, mmu_trap_as_mut_ptr)]
    fn c01_recursive_unmap_2mib_p4_absent_up() {
        rec_unmap_step!(Size2MiB, "2mib", "p4_absent", P4_ABSENT, IDX_UP);
        kani::cover!(true, "c01_recursive_unmap_2mib_p4_absent_up: reachable");
    }

    //@ obligation C02 C02.recursive_unmap_2mib.shape_p3_absent.documented_outcome bounded="pool of 7 tables (4 path + 3 allocatable); tree-shaped sparse pre-state (target path, one neighbour word per path table, garbage in allocatable frames); recursive index 300; page-table indices (255,511,0,256)"
    //@ obligation C02 C02.recursive_unmap_2mib.shape_p3_absent.error_leaves_every_mapping bounded="pool of 7 tables (4 path + 3 allocatable); tree-shaped sparse pre-state (target path, one neighbour word per path table, garbage in allocatable frames); recursive index 300; page-table indices (255,511,0,256)"
    //@ obligation C09 C09.recursive_unmap_2mib.shape_p3_absent.only_dictated_slots_change bounded="pool of 7 tables (4 path + 3 allocatable); tree-shaped sparse pre-state (target path, one neighbour word per path table, garbage in allocatable frames); recursive index 300; page-table indices (255,511,0,256)"
    //@ obligation C09 C09.recursive_unmap_2mib.shape_p3_absent.no_frames_requested_or_zeroed bounded="pool of 7 tables (4 path + 3 allocatable); tree-shaped sparse pre-state (target path, one neighbour word per path table, garbage in allocatable frames); recursive index 300; page-table indices (255,511,0,256)"
    //@ obligation C09 C09.recursive_unmap_2mib.shape_p3_absent.no_dangling_table_pointer bounded="pool of 7 tables (4 path + 3 allocatable); tree-shaped sparse pre-state (target path, one neighbour word per path table, garbage in allocatable frames); recursive index 300; page-table indices (255,511,0,256)"
    //@ obligation C09 C09.recursive_unmap_2mib.shape_p3_absent.no_access_outside_page_tables bounded="pool of 7 tables (4 path + 3 allocatable); tree-shaped sparse pre-state (target path, one neighbour word per path table, garbage in allocatable frames); recursive index 300; page-table indices (255,511,0,256)"
    //@ obligation C20 C20.recursive_unmap_2mib.uses_recursive_addresses_of_the_page bounded="pool of 7 tables (4 path + 3 allocatable); tree-shaped sparse pre-state (target path, one neighbour word per path table, garbage in allocatable frames); recursive index 300; page-table indices (255,511,0,256)"
    #[kani::proof]
    #[kani::stub(crate::structures::paging::page_table::PageTable::zero, zero_stub)]
    #[kani::stub(crate::addr::VirtAddr::as_mut_ptr, mmu_trap_as_mut_ptr)]
    fn c01_recursive_unmap_2mib_p3_absent_mid() {
        rec_unmap_step!(Size2MiB, "2mib", "p3_absent", P3_ABSENT, IDX_MID);
        kani::cover!(true, "c01_recursive_unmap_2mib_p3_absent_mid: reachable");
    }

    //@ obligation C02 C02.recursive_unmap_2mib.shape_p3_absent.documented_outcome tier=thorough bounded="pool of 7 tables (4 path + 3 allocatable); tree-shaped sparse pre-state (target path, one neighbour word per path table, garbage in allocatable frames); recursive index 300; page-table indices (256,0,510,511)"
    //@ obligation C02 C02.recursive_unmap_2mib.shape_p3_absent.error_leaves_every_mapping tier=thorough bounded="pool of 7 tables (4 path + 3 allocatable); tree-shaped sparse pre-state (target path, one neighbour word per path table, garbage in allocatable frames); recursive index 300; page-table indices (256,0,510,511)"
    //@ obligation C09 C09.recursive_unmap_2mib.shape_p3_absent.only_dictated_slots_change tier=thorough bounded="pool of 7 tables (4 path + 3 allocatable); tree-shaped sparse pre-state (target path, one neighbour word per path table, garbage in allocatable frames); recursive index 300; page-table indices (256,0,510,511)"
    //@ obligation C09 C09.recursive_unmap_2mib.shape_p3_absent.no_frames_requested_or_zeroed tier=thorough bounded="pool of 7 tables (4 path + 3 allocatable); tree-shaped sparse pre-state (target path, one neighbour word per path table, garbage in allocatable frames); recursive index 300; page-table indices (256,0,510,511)"
    //@ obligation C09 C09.recursive_unmap_2mib.shape_p3_absent.no_dangling_table_pointer tier=thorough bounded="pool of 7 tables (4 path + 3 allocatable); tree-shaped sparse pre-state (target path, one neighbour word per path table, garbage in allocatable frames); recursive index 300; page-table indices (256,0,510,511)"
    //@ obligation C09 C09.recursive_unmap_2mib.shape_p3_absent.no_access_outside_page_tables tier=thorough bounded="pool of 7 tables (4 path + 3 allocatable); tree-shaped sparse pre-state (target path, one neighbour word per path table, garbage in allocatable frames); recursive index 300; page-table indices (256,0,510,511)"
    //@ obligation C20 C20.recursive_unmap_2mib.uses_recursive_addresses_of_the_page tier=thorough bounded="pool of 7 tables (4 path + 3 allocatable); tree-shaped sparse pre-state (target path, one neighbour word per path table, garbage in allocatable frames); recursive index 300; page-table indices (256,0,510,511)"
    #[kani::proof]
    #[kani::stub(crate::structures::paging::page_table::PageTable::zero, zero_stub)]
    #[kani::stub(crate::addr::VirtAddr::as_mut_ptr, mmu_trap_as_mut_ptr)]
    fn c01_recursive_unmap_2mib_p3_absent_up() {
        rec_unmap_step!(Size2MiB, "2mib", "p3_absent", P3_ABSENT, IDX_UP);
        kani::cover!(true, "c01_recursive_unmap_2mib_p3_absent_up: reachable");
    }

    //@ obligation C02 C02.recursive_unmap_2mib.shape_p3_huge.huge_parent_is_reported_not_walked bounded="pool of 7 tables (4 path + 3 allocatable); tree-shaped sparse pre-state (target path, one neighbour word per path table, garbage in allocatable frames); recursive index 300; page-table indices (255,511,0,256)"
    //@ obligation C02 C02.recursive_unmap_2mib.shape_p3_huge.documented_outcome bounded="pool of 7 tables (4 path + 3 allocatable); tree-shaped sparse pre-state (target path, one neighbour word per path table, garbage in allocatable frames); recursive index 300; page-table indices (255,511,0,256)"
    //@ obligation C02 C02.recursive_unmap_2mib.shape_p3_huge.error_leaves_every_mapping bounded="pool of 7 tables (4 path + 3 allocatable); tree-shaped sparse pre-state (target path, one neighbour word per path table, garbage in allocatable frames); recursive index 300; page-table indices (255,511,0,256)"
    //@ obligation C09 C09.recursive_unmap_2mib.shape_p3_huge.only_dictated_slots_change bounded="pool of 7 tables (4 path + 3 allocatable); tree-shaped sparse pre-state (target path, one neighbour word per path table, garbage in allocatable frames); recursive index 300; page-table indices (255,511,0,256)"
    //@ obligation C09 C09.recursive_unmap_2mib.shape_p3_huge.no_frames_requested_or_zeroed bounded="pool of 7 tables (4 path + 3 allocatable); tree-shaped sparse pre-state (target path, one neighbour word per path table, garbage in allocatable frames); recursive index 300; page-table indices (255,511,0,256)"
    //@ obligation C09 C09.recursive_unmap_2mib.shape_p3_huge.no_dangling_table_pointer bounded="pool of 7 tables (4 path + 3 allocatable); tree-shaped sparse pre-state (target path, one neighbour word per path table, garbage in allocatable frames); recursive index 300; page-table indices (255,511,0,256)"
    //@ obligation C09 C09.recursive_unmap_2mib.shape_p3_huge.no_access_outside_page_tables bounded="pool of 7 tables (4 path + 3 allocatable); tree-shaped sparse pre-state (target path, one neighbour word per path table, garbage in allocatable frames); recursive index 300; page-table indices (255,511,0,256)"
    //@ obligation C20 C20.recursive_unmap_2mib.uses_recursive_addresses_of_the_page bounded="pool of 7 tables (4 path + 3 allocatable); tree-shaped sparse pre-state (target path, one neighbour word per path table, garbage in allocatable frames); recursive index 300; page-table indices (255,511,0,256)"
    #[kani::proof]
    #[kani::stub(crate::structures::paging::page_table::PageTable::zero, zero_stub)]
    #[kani::stub(crate::addr::VirtAddr::as_mut_ptr, mmu_trap_as_mut_ptr)]
    fn c01_recursive_unmap_2mib_p3_huge_mid() {
        rec_unmap_step!(Size2MiB, "2mib", "p3_huge", P3_HUGE, IDX_MID);
        kani::cover!(true, "c01_recursive_unmap_2mib_p3_huge_mid: reachable");
    }

    //@ obligation C02 C02.recursive_unmap_2mib.shape_p3_huge.huge_parent_is_reported_not_walked tier=thorough bounded="pool of 7 tables (4 path + 3 allocatable); tree-shaped sparse pre-state (target path, one neighbour word per path table, garbage in allocatable frames); recursive index 300; page-table indices (256,0,510,511)"
    //@ obligation C02 C02.recursive_unmap_2mib.shape_p3_huge.documented_outcome tier=thorough bounded="pool of 7 tables (4 path + 3 allocatable); tree-shaped sparse pre-state (target path, one neighbour word per path table, garbage in allocatable frames); recursive index 300; page-table indices (256,0,510,511)"
    //@ obligation C02 C02.recursive_unmap_2mib.shape_p3_huge.error_leaves_every_mapping tier=thorough bounded="pool of 7 tables (4 path + 3 allocatable); tree-shaped sparse pre-state (target path, one neighbour word per path table, garbage in allocatable frames); recursive index 300; page-table indices (256,0,510,511)"
    //@ obligation C09 C09.recursive_unmap_2mib.shape_p3_huge.only_dictated_slots_change tier=thorough bounded="pool of 7 tables (4 path + 3 allocatable); tree-shaped sparse pre-state (target path, one neighbour word per path table, garbage in allocatable frames); recursive index 300; page-table indices (256,0,510,511)"
    //@ obligation C09 C09.recursive_unmap_2mib.shape_p3_huge.no_frames_requested_or_zeroed tier=thorough bounded="pool of 7 tables (4 path + 3 allocatable); tree-shaped sparse pre-state (target path, one neighbour word per path table, garbage in allocatable frames); recursive index 300; page-table indices (256,0,510,511)"
    //@ obligation C09 C09.recursive_unmap_2mib.shape_p3_huge.no_dangling_table_pointer tier=thorough bounded="pool of 7 tables (4 path + 3 allocatable); tree-shaped sparse pre-state (target path, one neighbour word per path table, garbage in allocatable frames); recursive index 300; page-table indices (256,0,510,511)"
    //@ obligation C09 C09.recursive_unmap_2mib.shape_p3_huge.no_access_outside_page_tables tier=thorough bounded="pool of 7 tables (4 path + 3 allocatable); tree-shaped sparse pre-state (target path, one neighbour word per path table, garbage in allocatable frames); recursive index 300; page-table indices (256,0,510,511)"
    //@ obligation C20 C20.recursive_unmap_2mib.uses_recursive_addresses_of_the_page tier=thorough bounded="pool of 7 tables (4 path + 3 allocatable); tree-shaped sparse pre-state (target path, one neighbour word per path table, garbage in allocatable frames); recursive index 300; page-table indices (256,0,510,511)"
    #[kani::proof]
    #[kani::stub(crate::structures::paging::page_table::PageTable::zero, zero_stub)]
    #[kani::stub(crate::addr::VirtAddr::as_mut_ptr, mmu_trap_as_mut_ptr)]
    fn c01_recursive_unmap_2mib_p3_huge_up() {
        rec_unmap_step!(Size2MiB, "2mib", "p3_huge", P3_HUGE, IDX_UP);
        kani::cover!(true, "c01_recursive_unmap_2mib_p3_huge_up: reachable");
    }

    //@ obligation C02 C02.recursive_unmap_2mib.shape_p2_absent.documented_outcome bounded="pool of 7 tables (4 path + 3 allocatable); tree-shaped sparse pre-state (target path, one neighbour word per path table, garbage in allocatable frames); recursive index 300; page-table indices (255,511,0,256)"
    //@ obligation C02 C02.recursive_unmap_2mib.shape_p2_absent.error_leaves_every_mapping bounded="pool of 7 tables (4 path + 3 allocatable); tree-shaped sparse pre-state (target path, one neighbour word per path table, garbage in allocatable frames); recursive index 300; page-table indices (255,511,0,256)"
    //@ obligation C09 C09.recursive_unmap_2mib.shape_p2_absent.only_dictated_slots_change bounded="pool of 7 tables (4 path + 3 allocatable); tree-shaped sparse pre-state (target path, one neighbour word per path table, garbage in allocatable frames); recursive index 300; page-table indices (255,511,0,256)"
    //@ obligation C09 C09.recursive_unmap_2mib.shape_p2_absent.no_frames_requested_or_zeroed bounded="pool of 7 tables (4 path + 3 allocatable); tree-shaped sparse pre-state (target path, one neighbour word per path table, garbage in allocatable frames); recursive index 300; page-table indices (255,511,0,256)"
    //@ obligation C09 C09.recursive_unmap_2mib.shape_p2_absent.no_dangling_table_pointer bounded="pool of 7 tables (4 path + 3 allocatable); tree-shaped sparse pre-state (target path, one neighbour word per path table, garbage in allocatable frames); recursive index 300; page-table indices (255,511,0,256)"
    //@ obligation C09 C09.recursive_unmap_2mib.shape_p2_absent.no_access_outside_page_tables bounded="pool of 7 tables (4 path + 3 allocatable); tree-shaped sparse pre-state (target path, one neighbour word per path table, garbage in allocatable frames); recursive index 300; page-table indices (255,511,0,256)"
    //@ obligation C20 C20.recursive_unmap_2mib.uses_recursive_addresses_of_the_page bounded="pool of 7 tables (4 path + 3 allocatable); tree-shaped sparse pre-state (target path, one neighbour word per path table, garbage in allocatable frames); recursive index 300; page-table indices (255,511,0,256)"
    #[kani::proof]
    #[kani::stub(crate::structures::paging::page_table::PageTable::zero, zero_stub)]
    #[kani::stub(crate::addr::VirtAddr::as_mut_ptr, mmu_trap_as_mut_ptr)]
    fn c01_recursive_unmap_2mib_p2_absent_mid() {
        rec_unmap_step!(Size2MiB, "2mib", "p2_absent", P2_ABSENT, IDX_MID);
        kani::cover!(true, "c01_recursive_unmap_2mib_p2_absent_mid: reachable");
    }

    //@ obligation C02 C02.recursive_unmap_2mib.shape_p2_absent.documented_outcome tier=thorough bounded="pool of 7 tables (4 path + 3 allocatable); tree-shaped sparse pre-state (target path, one neighbour word per path table, garbage in allocatable frames); recursive index 300; page-table indices (256,0,510,511)"
    //@ obligation C02 C02.recursive_unmap_2mib.shape_p2_absent.error_leaves_every_mapping tier=thorough bounded="pool of 7 tables (4 path + 3 allocatable); tree-shaped sparse pre-state (target path, one neighbour word per path table, garbage in allocatable frames); recursive index 300; page-table indices (256,0,510,511)"
    //@ obligation C09 C09.recursive_unmap_2mib.shape_p2_absent.only_dictated_slots_change tier=thorough bounded="pool of 7 tables (4 path + 3 allocatable); tree-shaped sparse pre-state (target path, one neighbour word per path table, garbage in allocatable frames); recursive index 300; page-table indices (256,0,510,511)"
    //@ obligation C09 C09.recursive_unmap_2mib.shape_p2_absent.no_frames_requested_or_zeroed tier=thorough bounded="pool of 7 tables (4 path + 3 allocatable); tree-shaped sparse pre-state (target path, one neighbour word per path table, garbage in allocatable frames); recursive index 300; page-table indices (256,0,510,511)"
    //@ obligation C09 C09.recursive_unmap_2mib.shape_p2_absent.no_dangling_table_pointer tier=thorough bounded="pool of 7 tables (4 path + 3 allocatable); tree-shaped sparse pre-state (target path, one neighbour word per path table, garbage in allocatable frames); recursive index 300; page-table indices (256,0,510,511)"
    //@ obligation C09 C09.recursive_unmap_2mib.shape_p2_absent.no_access_outside_page_tables tier=thorough bounded="pool of 7 tables (4 path + 3 allocatable); tree-shaped sparse pre-state (target path, one neighbour word per path table, garbage in allocatable frames); recursive index 300; page-table indices (256,0,510,511)"
    //@ obligation C20 C20.recursive_unmap_2mib.uses_recursive_addresses_of_the_page tier=thorough bounded="pool of 7 tables (4 path + 3 allocatable); tree-shaped sparse pre-state (target path, one neighbour word per path table, garbage in allocatable frames); recursive index 300; page-table indices (256,0,510,511)"
    #[kani::proof]
    #[kani::stub(crate::structures::paging::page_table::PageTable::zero, zero_stub)]
    #[kani::stub(crate::addr::VirtAddr::as_mut_ptr, mmu_trap_as_mut_ptr)]
    fn c01_recursive_unmap_2mib_p2_absent_up() {
        rec_unmap_step!(Size2MiB, "2mib", "p2_absent", P2_ABSENT, IDX_UP);
        kani::cover!(true, "c01_recursive_unmap_2mib_p2_absent_up: reachable");
    }

    //@ obligation C02 C02.recursive_unmap_2mib.shape_p2_huge.documented_outcome tier=thorough bounded="pool of 7 tables (4 path + 3 allocatable); tree-shaped sparse pre-state (target path, one neighbour word per path table, garbage in allocatable frames); recursive index 300; page-table indices (255,511,0,256)"
    //@ obligation C01 C01.recursive_unmap_2mib.shape_p2_huge.returns_mapped_frame tier=thorough bounded="pool of 7 tables (4 path + 3 allocatable); tree-shaped sparse pre-state (target path, one neighbour word per path table, garbage in allocatable frames); recursive index 300; page-table indices (255,511,0,256)"
    //@ obligation C01 C01.recursive_unmap_2mib.shape_p2_huge.target_not_mapped_after tier=thorough bounded="pool of 7 tables (4 path + 3 allocatable); tree-shaped sparse pre-state (target path, one neighbour word per path table, garbage in allocatable frames); recursive index 300; page-table indices (255,511,0,256)"
    //@ obligation C11 C11.recursive_unmap_2mib.shape_p2_huge.target_not_mapped_after tier=thorough bounded="pool of 7 tables (4 path + 3 allocatable); tree-shaped sparse pre-state (target path, one neighbour word per path table, garbage in allocatable frames); recursive index 300; page-table indices (255,511,0,256)"
    //@ obligation C01 C01.recursive_unmap_2mib.shape_p2_huge.other_addresses_unchanged tier=thorough bounded="pool of 7 tables (4 path + 3 allocatable); tree-shaped sparse pre-state (target path, one neighbour word per path table, garbage in allocatable frames); recursive index 300; page-table indices (255,511,0,256)"
    //@ obligation C11 C11.recursive_unmap_2mib.shape_p2_huge.other_addresses_unchanged tier=thorough bounded="pool of 7 tables (4 path + 3 allocatable); tree-shaped sparse pre-state (target path, one neighbour word per path table, garbage in allocatable frames); recursive index 300; page-table indices (255,511,0,256)"
    //@ obligation C01 C01.recursive_unmap_2mib.shape_p2_huge.result_reports_page tier=thorough bounded="pool of 7 tables (4 path + 3 allocatable); tree-shaped sparse pre-state (target path, one neighbour word per path table, garbage in allocatable frames); recursive index 300; page-table indices (255,511,0,256)"
    //@ obligation C11 C11.recursive_unmap_2mib.shape_p2_huge.token_names_page tier=thorough bounded="pool of 7 tables (4 path + 3 allocatable); tree-shaped sparse pre-state (target path, one neighbour word per path table, garbage in allocatable frames); recursive index 300; page-table indices (255,511,0,256)"
    //@ obligation C09 C09.recursive_unmap_2mib.shape_p2_huge.only_dictated_slots_change tier=thorough bounded="pool of 7 tables (4 path + 3 allocatable); tree-shaped sparse pre-state (target path, one neighbour word per path table, garbage in allocatable frames); recursive index 300; page-table indices (255,511,0,256)"
    //@ obligation C09 C09.recursive_unmap_2mib.shape_p2_huge.no_frames_requested_or_zeroed tier=thorough bounded="pool of 7 tables (4 path + 3 allocatable); tree-shaped sparse pre-state (target path, one neighbour word per path table, garbage in allocatable frames); recursive index 300; page-table indices (255,511,0,256)"
    //@ obligation C09 C09.recursive_unmap_2mib.shape_p2_huge.no_dangling_table_pointer tier=thorough bounded="pool of 7 tables (4 path + 3 allocatable); tree-shaped sparse pre-state (target path, one neighbour word per path table, garbage in allocatable frames); recursive index 300; page-table indices (255,511,0,256)"
    //@ obligation C09 C09.recursive_unmap_2mib.shape_p2_huge.no_access_outside_page_tables tier=thorough bounded="pool of 7 tables (4 path + 3 allocatable); tree-shaped sparse pre-state (target path, one neighbour word per path table, garbage in allocatable frames); recursive index 300; page-table indices (255,511,0,256)"
    //@ obligation C20 C20.recursive_unmap_2mib.uses_recursive_addresses_of_the_page tier=thorough bounded="pool of 7 tables (4 path + 3 allocatable); tree-shaped sparse pre-state (target path, one neighbour word per path table, garbage in allocatable frames); recursive index 300; page-table indices (255,511,0,256)"
    #[kani::proof]
    #[kani::stub(crate::structures::paging::page_table::PageTable::zero, zero_stub)]
    #[kani::stub(crate::addr::VirtAddr::as_mut_ptr, mmu_trap_as_mut_ptr)]
    fn c01_recursive_unmap_2mib_p2_huge_mid() {
        rec_unmap_step!(Size2MiB, "2mib", "p2_huge", P2_HUGE, IDX_MID);
        kani::cover!(true, "c01_recursive_unmap_2mib_p2_huge_mid: reachable");
    }

    //@ obligation C02 C02.recursive_unmap_2mib.shape_p2_huge.documented_outcome bounded="pool of 7 tables (4 path + 3 allocatable); tree-shaped sparse pre-state (target path, one neighbour word per path table, garbage in allocatable frames); recursive index 300; page-table indices (256,0,510,511)"
    //@ obligation C01 C01.recursive_unmap_2mib.shape_p2_huge.returns_mapped_frame bounded="pool of 7 tables (4 path + 3 allocatable); tree-shaped sparse pre-state (target path, one neighbour word per path table, garbage in allocatable frames); recursive index 300; page-table indices (256,0,510,511)"
    //@ obligation C01 C01.recursive_unmap_2mib.shape_p2_huge.target_not_mapped_after bounded="pool of 7 tables (4 path + 3 allocatable); tree-shaped sparse pre-state (target path, one neighbour word per path table, garbage in allocatable frames); recursive index 300; page-table indices (256,0,510,511)"
    //@ obligation C11 C11.recursive_unmap_2mib.shape_p2_huge.target_not_mapped_after bounded="pool of 7 tables (4 path + 3 allocatable); tree-shaped sparse pre-state (target path, one neighbour word per path table, garbage in allocatable frames); recursive index 300; page-table indices (256,0,510,511)"
    //@ obligation C01 C01.recursive_unmap_2mib.shape_p2_huge.other_addresses_unchanged bounded="pool of 7 tables (4 path + 3 allocatable); tree-shaped sparse pre-state (target path, one neighbour word per path table, garbage in allocatable frames); recursive index 300; page-table indices (256,0,510,511)"
    //@ obligation C11 C11.recursive_unmap_2mib.shape_p2_huge.other_addresses_unchanged bounded="pool of 7 tables (4 path + 3 allocatable); tree-shaped sparse pre-state (target path, one neighbour word per path table, garbage in allocatable frames); recursive index 300; page-table indices (256,0,510,511)"
    //@ obligation C01 C01.recursive_unmap_2mib.shape_p2_huge.result_reports_page bounded="pool of 7 tables (4 path + 3 allocatable); tree-shaped sparse pre-state (target path, one neighbour word per path table, garbage in allocatable frames); recursive index 300; page-table indices (256,0,510,511)"
    //@ obligation C11 C11.recursive_unmap_2mib.shape_p2_huge.token_names_page bounded="pool of 7 tables (4 path + 3 allocatable); tree-shaped sparse pre-state (target path, one neighbour word per path table, garbage in allocatable frames); recursive index 300; page-table indices (256,0,510,511)"
    //@ obligation C09 C09.recursive_unmap_2mib.shape_p2_huge.only_dictated_slots_change bounded="pool of 7 tables (4 path + 3 allocatable); tree-shaped sparse pre-state (target path, one neighbour word per path table, garbage in allocatable frames); recursive index 300; page-table indices (256,0,510,511)"
    //@ obligation C09 C09.recursive_unmap_2mib.shape_p2_huge.no_frames_requested_or_zeroed bounded="pool of 7 tables (4 path + 3 allocatable); tree-shaped sparse pre-state (target path, one neighbour word per path table, garbage in allocatable frames); recursive index 300; page-table indices (256,0,510,511)"
    //@ obligation C09 C09.recursive_unmap_2mib.shape_p2_huge.no_dangling_table_pointer bounded="pool of 7 tables (4 path + 3 allocatable); tree-shaped sparse pre-state (target path, one neighbour word per path table, garbage in allocatable frames); recursive index 300; page-table indices (256,0,510,511)"
    //@ obligation C09 C09.recursive_unmap_2mib.shape_p2_huge.no_access_outside_page_tables bounded="pool of 7 tables (4 path + 3 allocatable); tree-shaped sparse pre-state (target path, one neighbour word per path table, garbage in allocatable frames); recursive index 300; page-table indices (256,0,510,511)"
    //@ obligation C20 C20.recursive_unmap_2mib.uses_recursive_addresses_of_the_page bounded="pool of 7 tables (4 path + 3 allocatable); tree-shaped sparse pre-state (target path, one neighbour word per path table, garbage in allocatable frames); recursive index 300; page-table indices (256,0,510,511)"
    #[kani::proof]
    #[kani::stub(crate::structures::paging::page_table::PageTable::zero, zero_stub)]
    #[kani::stub(crate::addr::VirtAddr::as_mut_ptr, mmu_trap_as_mut_ptr)]
    fn c01_recursive_unmap_2mib_p2_huge_up() {
        rec_unmap_step!(Size2MiB, "2mib", "p2_huge", P2_HUGE, IDX_UP);
        kani::cover!(true, "c01_recursive_unmap_2mib_p2_huge_up: reachable");
    }

    //@ obligation C02 C02.recursive_unmap_2mib.shape_table_entry.no_success_for_nonexistent_size tier=thorough bounded="pool of 7 tables (4 path + 3 allocatable); tree-shaped sparse pre-state (target path, one neighbour word per path table, garbage in allocatable frames); recursive index 300; page-table indices (255,511,0,256)"
    //@ obligation C02 C02.recursive_unmap_2mib.shape_table_entry.documented_outcome tier=thorough bounded="pool of 7 tables (4 path + 3 allocatable); tree-shaped sparse pre-state (target path, one neighbour word per path table, garbage in allocatable frames); recursive index 300; page-table indices (255,511,0,256)"
    //@ obligation C02 C02.recursive_unmap_2mib.shape_table_entry.error_leaves_every_mapping tier=thorough bounded="pool of 7 tables (4 path + 3 allocatable); tree-shaped sparse pre-state (target path, one neighbour word per path table, garbage in allocatable frames); recursive index 300; page-table indices (255,511,0,256)"
    //@ obligation C09 C09.recursive_unmap_2mib.shape_table_entry.only_dictated_slots_change tier=thorough bounded="pool of 7 tables (4 path + 3 allocatable); tree-shaped sparse pre-state (target path, one neighbour word per path table, garbage in allocatable frames); recursive index 300; page-table indices (255,511,0,256)"
    //@ obligation C09 C09.recursive_unmap_2mib.shape_table_entry.no_frames_requested_or_zeroed tier=thorough bounded="pool of 7 tables (4 path + 3 allocatable); tree-shaped sparse pre-state (target path, one neighbour word per path table, garbage in allocatable frames); recursive index 300; page-table indices (255,511,0,256)"
    //@ obligation C09 C09.recursive_unmap_2mib.shape_table_entry.no_dangling_table_pointer tier=thorough bounded="pool of 7 tables (4 path + 3 allocatable); tree-shaped sparse pre-state (target path, one neighbour word per path table, garbage in allocatable frames); recursive index 300; page-table indices (255,511,0,256)"
    //@ obligation C09 C09.recursive_unmap_2mib.shape_table_entry.no_access_outside_page_tables tier=thorough bounded="pool of 7 tables (4 path + 3 allocatable); tree-shaped sparse pre-state (target path, one neighbour word per path table, garbage in allocatable frames); recursive index 300; page-table indices (255,511,0,256)"
    //@ obligation C20 C20.recursive_unmap_2mib.uses_recursive_addresses_of_the_page tier=thorough bounded="pool of 7 tables (4 path + 3 allocatable); tree-shaped sparse pre-state (target path, one neighbour word per path table, garbage in allocatable frames); recursive index 300; page-table indices (255,511,0,256)"
    #[kani::proof]
    #[kani::stub(crate::structures::paging::page_table::PageTable::zero, zero_stub)]
    #[kani::stub(crate::addr::VirtAddr::as_mut_ptr, mmu_trap_as_mut_ptr)]
    fn c01_recursive_unmap_2mib_table_entry_mid() {
        rec_unmap_step!(Size2MiB, "2mib", "table_entry", P2_TABLE, IDX_MID);
        kani::cover!(true, "c01_recursive_unmap_2mib_table_entry_mid: reachable");
    }

    //@ obligation C02 C02.recursive_unmap_2mib.shape_table_entry.no_success_for_nonexistent_size bounded="pool of 7 tables (4 path + 3 allocatable); tree-shaped sparse pre-state (target path, one neighbour word per path table, garbage in allocatable frames); recursive index 300; page-table indices (256,0,510,511)"
    //@ obligation C02 C02.recursive_unmap_2mib.shape_table_entry.documented_outcome bounded="pool of 7 tables (4 path + 3 allocatable); tree-shaped sparse pre-state (target path, one neighbour word per path table, garbage in allocatable frames); recursive index 300; page-table indices (256,0,510,511)"
    //@ obligation C02 C02.recursive_unmap_2mib.shape_table_entry.error_leaves_every_mapping bounded="pool of 7 tables (4 path + 3 allocatable); tree-shaped sparse pre-state (target path, one neighbour word per path table, garbage in allocatable frames); recursive index 300; page-table indices (256,0,510,511)"
    //@ obligation C09 C09.recursive_unmap_2mib.shape_table_entry.only_dictated_slots_change bounded="pool of 7 tables (4 path + 3 allocatable); tree-shaped sparse pre-state (target path, one neighbour word per path table, garbage in allocatable frames); recursive index 300; page-table indices (256,0,510,511)"
    //@ obligation C09 C09.recursive_unmap_2mib.shape_table_entry.no_frames_requested_or_zeroed bounded="pool of 7 tables (4 path + 3 allocatable); tree-shaped sparse pre-state (target path, one neighbour word per path table, garbage in allocatable frames); recursive index 300; page-table indices (256,0,510,511)"
    //@ obligation C09 C09.recursive_unmap_2mib.shape_table_entry.no_dangling_table_pointer bounded="pool of 7 tables (4 path + 3 allocatable); tree-shaped sparse pre-state (target path, one neighbour word per path table, garbage in allocatable frames); recursive index 300; page-table indices (256,0,510,511)"
    //@ obligation C09 C09.recursive_unmap_2mib.shape_table_entry.no_access_outside_page_tables bounded="pool of 7 tables (4 path + 3 allocatable); tree-shaped sparse pre-state (target path, one neighbour word per path table, garbage in allocatable frames); recursive index 300; page-table indices (256,0,510,511)"
    //@ obligation C20 C20.recursive_unmap_2mib.uses_recursive_addresses_of_the_page bounded="pool of 7 tables (4 path + 3 allocatable); tree-shaped sparse pre-state (target path, one neighbour word per path table, garbage in allocatable frames); recursive index 300; page-table indices (256,0,510,511)"
    #[kani::proof]
    #[kani::stub(crate::structures::paging::page_table::PageTable::zero, zero_stub)]
    #[kani::stub(crate::addr::VirtAddr::as_mut_ptr, mmu_trap_as_mut_ptr)]
    fn c01_recursive_unmap_2mib_table_entry_up() {
        rec_unmap_step!(Size2MiB, "2mib", "table_entry", P2_TABLE, IDX_UP);
        kani::cover!(true, "c01_recursive_unmap_2mib_table_entry_up: reachable");
    }

    //@ obligation C02 C02.recursive_unmap_2mib.shape_sym.documented_outcome tier=thorough bounded="pool of 7 tables (4 path + 3 allocatable); tree-shaped sparse pre-state (target path, one neighbour word per path table, garbage in allocatable frames); recursive index 300; page-table indices (255,511,0,256)"
    //@ obligation C01 C01.recursive_unmap_2mib.shape_sym.returns_mapped_frame tier=thorough bounded="pool of 7 tables (4 path + 3 allocatable); tree-shaped sparse pre-state (target path, one neighbour word per path table, garbage in allocatable frames); recursive index 300; page-table indices (255,511,0,256)"
    //@ obligation C01 C01.recursive_unmap_2mib.shape_sym.target_not_mapped_after tier=thorough bounded="pool of 7 tables (4 path + 3 allocatable); tree-shaped sparse pre-state (target path, one neighbour word per path table, garbage in allocatable frames); recursive index 300; page-table indices (255,511,0,256)"
    //@ obligation C11 C11.recursive_unmap_2mib.shape_sym.target_not_mapped_after tier=thorough bounded="pool of 7 tables (4 path + 3 allocatable); tree-shaped sparse pre-state (target path, one neighbour word per path table, garbage in allocatable frames); recursive index 300; page-table indices (255,511,0,256)"
    //@ obligation C01 C01.recursive_unmap_2mib.shape_sym.other_addresses_unchanged tier=thorough bounded="pool of 7 tables (4 path + 3 allocatable); tree-shaped sparse pre-state (target path, one neighbour word per path table, garbage in allocatable frames); recursive index 300; page-table indices (255,511,0,256)"
    //@ obligation C11 C11.recursive_unmap_2mib.shape_sym.other_addresses_unchanged tier=thorough bounded="pool of 7 tables (4 path + 3 allocatable); tree-shaped sparse pre-state (target path, one neighbour word per path table, garbage in allocatable frames); recursive index 300; page-table indices (255,511,0,256)"
    //@ obligation C01 C01.recursive_unmap_2mib.shape_sym.result_reports_page tier=thorough bounded="pool of 7 tables (4 path + 3 allocatable); tree-shaped sparse pre-state (target path, one neighbour word per path table, garbage in allocatable frames); recursive index 300; page-table indices (255,511,0,256)"
    //@ obligation C11 C11.recursive_unmap_2mib.shape_sym.token_names_page tier=thorough bounded="pool of 7 tables (4 path + 3 allocatable); tree-shaped sparse pre-state (target path, one neighbour word per path table, garbage in allocatable frames); recursive index 300; page-table indices (255,511,0,256)"
    //@ obligation C02 C02.recursive_unmap_2mib.shape_sym.error_leaves_every_mapping tier=thorough bounded="pool of 7 tables (4 path + 3 allocatable); tree-shaped sparse pre-state (target path, one neighbour word per path table, garbage in allocatable frames); recursive index 300; page-table indices (255,511,0,256)"
    //@ obligation C09 C09.recursive_unmap_2mib.shape_sym.only_dictated_slots_change tier=thorough bounded="pool of 7 tables (4 path + 3 allocatable); tree-shaped sparse pre-state (target path, one neighbour word per path table, garbage in allocatable frames); recursive index 300; page-table indices (255,511,0,256)"
    //@ obligation C09 C09.recursive_unmap_2mib.shape_sym.no_frames_requested_or_zeroed tier=thorough bounded="pool of 7 tables (4 path + 3 allocatable); tree-shaped sparse pre-state (target path, one neighbour word per path table, garbage in allocatable frames); recursive index 300; page-table indices (255,511,0,256)"
    //@ obligation C09 C09.recursive_unmap_2mib.shape_sym.no_dangling_table_pointer tier=thorough bounded="pool of 7 tables (4 path + 3 allocatable); tree-shaped sparse pre-state (target path, one neighbour word per path table, garbage in allocatable frames); recursive index 300; page-table indices (255,511,0,256)"
    //@ obligation C09 C09.recursive_unmap_2mib.shape_sym.no_access_outside_page_tables tier=thorough bounded="pool of 7 tables (4 path + 3 allocatable); tree-shaped sparse pre-state (target path, one neighbour word per path table, garbage in allocatable frames); recursive index 300; page-table indices (255,511,0,256)"
    //@ obligation C20 C20.recursive_unmap_2mib.uses_recursive_addresses_of_the_page tier=thorough bounded="pool of 7 tables (4 path + 3 allocatable); tree-shaped sparse pre-state (target path, one neighbour word per path table, garbage in allocatable frames); recursive index 300; page-table indices (255,511,0,256)"
    #[kani::proof]
    #[kani::stub(crate::structures::paging::page_table::PageTable::zero, zero_stub)]
    #[kani::stub(crate::addr::VirtAddr::as_mut_ptr, mmu_trap_as_mut_ptr)]
    fn c01_recursive_unmap_2mib_sym_mid() {
        rec_unmap_step!(Size2MiB, "2mib", "sym", P2_SYM, IDX_MID);
        kani::cover!(true, "c01_recursive_unmap_2mib_sym_mid: reachable");
    }

    //@ obligation C02 C02.recursive_unmap_2mib.shape_sym.documented_outcome bounded="pool of 7 tables (4 path + 3 allocatable); tree-shaped sparse pre-state (target path, one neighbour word per path table, garbage in allocatable frames); recursive index 300; page-table indices (256,0,510,511)"
    //@ obligation C01 C01.recursive_unmap_2mib.shape_sym.returns_mapped_frame bounded="pool of 7 tables (4 path + 3 allocatable); tree-shaped sparse pre-state (target path, one neighbour word per path table, garbage in allocatable frames); recursive index 300; page-table indices (256,0,510,511)"
    //@ obligation C01 C01.recursive_unmap_2mib.shape_sym.target_not_mapped_after bounded="pool of 7 tables (4 path + 3 allocatable); tree-shaped sparse pre-state (target path, one neighbour word per path table, garbage in allocatable frames); recursive index 300; page-table indices (256,0,510,511)"
    //@ obligation C11 C11.recursive_unmap_2mib.shape_sym.target_not_mapped_after bounded="pool of 7 tables (4 path + 3 allocatable); tree-shaped sparse pre-state (target path, one neighbour word per path table, garbage in allocatable frames); recursive index 300; page-table indices (256,0,510,511)"
    //@ obligation C01 C01.recursive_unmap_2mib.shape_sym.other_addresses_unchanged bounded="pool of 7 tables (4 path + 3 allocatable); tree-shaped sparse pre-state (target path, one neighbour word per path table, garbage in allocatable frames); recursive index 300; page-table indices (256,0,510,511)"
    //@ obligation C11 C11.recursive_unmap_2mib.shape_sym.other_addresses_unchanged bounded="pool of 7 tables (4 path + 3 allocatable); tree-shaped sparse pre-state (target path, one neighbour word per path table, garbage in allocatable frames); recursive index 300; page-table indices (256,0,510,511)"
    //@ obligation C01 C01.recursive_unmap_2mib.shape_sym.result_reports_page bounded="pool of 7 tables (4 path + 3 allocatable); tree-shaped sparse pre-state (target path, one neighbour word per path table, garbage in allocatable frames); recursive index 300; page-table indices (256,0,510,511)"
    //@ obligation C11 C11.recursive_unmap_2mib.shape_sym.token_names_page bounded="pool of 7 tables (4 path + 3 allocatable); tree-shaped sparse pre-state (target path, one neighbour word per path table, garbage in allocatable frames); recursive index 300; page-table indices (256,0,510,511)"
    //@ obligation C02 C02.recursive_unmap_2mib.shape_sym.error_leaves_every_mapping bounded="pool of 7 tables (4 path + 3 allocatable); tree-shaped sparse pre-state (target path, one neighbour word per path table, garbage in allocatable frames); recursive index 300; page-table indices (256,0,510,511)"
    //@ obligation C09 C09.recursive_unmap_2mib.shape_sym.only_dictated_slots_change bounded="pool of 7 tables (4 path + 3 allocatable); tree-shaped sparse pre-state (target path, one neighbour word per path table, garbage in allocatable frames); recursive index 300; page-table indices (256,0,510,511)"
    //@ obligation C09 C09.recursive_unmap_2mib.shape_sym.no_frames_requested_or_zeroed bounded="pool of 7 tables (4 path + 3 allocatable); tree-shaped sparse pre-state (target path, one neighbour word per path table, garbage in allocatable frames); recursive index 300; page-table indices (256,0,510,511)"
    //@ obligation C09 C09.recursive_unmap_2mib.shape_sym.no_dangling_table_pointer bounded="pool of 7 tables (4 path + 3 allocatable); tree-shaped sparse pre-state (target path, one neighbour word per path table, garbage in allocatable frames); recursive index 300; page-table indices (256,0,510,511)"
    //@ obligation C09 C09.recursive_unmap_2mib.shape_sym.no_access_outside_page_tables bounded="pool of 7 tables (4 path + 3 allocatable); tree-shaped sparse pre-state (target path, one neighbour word per path table, garbage in allocatable frames); recursive index 300; page-table indices (256,0,510,511)"
    //@ obligation C20 C20.recursive_unmap_2mib.uses_recursive_addresses_of_the_page bounded="pool of 7 tables (4 path + 3 allocatable); tree-shaped sparse pre-state (target path, one neighbour word per path table, garbage in allocatable frames); recursive index 300; page-table indices (256,0,510,511)"
    #[kani::proof]
    #[kani::stub(crate::structures::paging::page_table::PageTable::zero, zero_stub)]
    #[kani::stub(crate::addr::VirtAddr::as_mut_ptr, mmu_trap_as_mut_ptr)]
    fn c01_recursive_unmap_2mib_sym_up() {
        rec_unmap_step!(Size2MiB, "2mib", "sym", P2_SYM, IDX_UP);
        kani::cover!(true, "c01_recursive_unmap_2mib_sym_up: reachable");
    }

    //@ obligation C02 C02.recursive_unmap_1gib.shape_p4_absent.documented_outcome tier=thorough bounded="pool of 7 tables (4 path + 3 allocatable); tree-shaped sparse pre-state (target path, one neighbour word per path table, garbage in allocatable frames); recursive index 300; page-table indices (255,511,0,256)"
    //@ obligation C02 C02.recursive_unmap_1gib.shape_p4_absent.error_leaves_every_mapping tier=thorough bounded="pool of 7 tables (4 path + 3 allocatable); tree-shaped sparse pre-state (target path, one neighbour word per path table, garbage in allocatable frames); recursive index 300; page-table indices (255,511,0,256)"
    //@ obligation C09 C09.recursive_unmap_1gib.shape_p4_absent.only_dictated_slots_change tier=thorough bounded="pool of 7 tables (4 path + 3 allocatable); tree-shaped sparse pre-state (target path, one neighbour word per path table, garbage in allocatable frames); recursive index 300; page-table indices (255,511,0,256)"
    //@ obligation C09 C09.recursive_unmap_1gib.shape_p4_absent.no_frames_requested_or_zeroed tier=thorough bounded="pool of 7 tables (4 path + 3 allocatable); tree-shaped sparse pre-state (target path, one neighbour word per path table, garbage in allocatable frames); recursive index 300; page-table indices (255,511,0,256)"
    //@ obligation C09 C09.recursive_unmap_1gib.shape_p4_absent.no_dangling_table_pointer tier=thorough bounded="pool of 7 tables (4 path + 3 allocatable); tree-shaped sparse pre-state (target path, one neighbour word per path table, garbage in allocatable frames); recursive index 300; page-table indices (255,511,0,256)"
    //@ obligation C09 C09.recursive_unmap_1gib.shape_p4_absent.no_access_outside_page_tables tier=thorough bounded="pool of 7 tables (4 path + 3 allocatable); tree-shaped sparse pre-state (target path, one neighbour word per path table, garbage in allocatable frames); recursive index 300; page-table indices (255,511,0,256)"
    #[kani::proof]
    #[kani::stub(crate::structures::paging::page_table::PageTable::zero, zero_stub)]
    #[kani::stub(crate::addr::VirtAddr::as_mut_ptr, mmu_trap_as_mut_ptr)]
    fn c01_recursive_unmap_1gib_p4_absent_mid() {
        rec_unmap_step!(Size1GiB, "1gib", "p4_absent", P4_ABSENT, IDX_MID);
        kani::cover!(true, "c01_recursive_unmap_1gib_p4_absent_mid: reachable");
    }

    //@ obligation C02 C02.recursive_unmap_1gib.shape_p4_absent.documented_outcome bounded="pool of 7 tables (4 path + 3 allocatable); tree-shaped sparse pre-state (target path, one neighbour word per path table, garbage in allocatable frames); recursive index 300; page-table indices (256,0,510,511)"
    //@ obligation C02 C02.recursive_unmap_1gib.shape_p4_absent.error_leaves_every_mapping bounded="pool of 7 tables (4 path + 3 allocatable); tree-shaped sparse pre-state (target path, one neighbour word per path table, garbage in allocatable frames); recursive index 300; page-table indices (256,0,510,511)"
    //@ obligation C09 C09.recursive_unmap_1gib.shape_p4_absent.only_dictated_slots_change bounded="pool of 7 tables (4 path + 3 allocatable); tree-shaped sparse pre-state (target path, one neighbour word per path table, garbage in allocatable frames); recursive index 300; page-table indices (256,0,510,511)"
    //@ obligation C09 C09.recursive_unmap_1gib.shape_p4_absent.no_frames_requested_or_zeroed bounded="pool of 7 tables (4 path + 3 allocatable); tree-shaped sparse pre-state (target path, one neighbour word per path table, garbage in allocatable frames); recursive index 300; page-table indices (256,0,510,511)"
    //@ obligation C09 C09.recursive_unmap_1gib.shape_p4_absent.no_dangling_table_pointer bounded="pool of 7 tables (4 path + 3 allocatable); tree-shaped sparse pre-state (target path, one neighbour word per path table, garbage in allocatable frames); recursive index 300; page-table indices (256,0,510,511)"
    //@ obligation C09 C09.recursive_unmap_1gib.shape_p4_absent.no_access_outside_page_tables bounded="pool of 7 tables (4 path + 3 allocatable); tree-shaped sparse pre-state (target path, one neighbour word per path table, garbage in allocatable frames); recursive index 300; page-table indices (256,0,510,511)"
    #[kani::proof]
    #[kani::stub(crate::structures::paging::page_table::PageTable::zero, zero_stub)]
    #[kani::stub(crate::addr::VirtAddr::as_mut_ptr, mmu_trap_as_mut_ptr)]
    fn c01_recursive_unmap_1gib_p4_absent_up() {
        rec_unmap_step!(Size1GiB, "1gib", "p4_absent", P4_ABSENT, IDX_UP);
        kani::cover!(true, "c01_recursive_unmap_1gib_p4_absent_up: reachable");
    }

    //@ obligation C02 C02.recursive_unmap_1gib.shape_p3_absent.documented_outcome bounded="pool of 7 tables (4 path + 3 allocatable); tree-shaped sparse pre-state (target path, one neighbour word per path table, garbage in allocatable frames); recursive index 300; page-table indices (255,511,0,256)"
    //@ obligation C02 C02.recursive_unmap_1gib.shape_p3_absent.error_leaves_every_mapping bounded="pool of 7 tables (4 path + 3 allocatable); tree-shaped sparse pre-state (target path, one neighbour word per path table, garbage in allocatable frames); recursive index 300; page-table indices (255,511,0,256)"
    //@ obligation C09 C09.recursive_unmap_1gib.shape_p3_absent.only_dictated_slots_change bounded="pool of 7 tables (4 path + 3 allocatable); tree-shaped sparse pre-state (target path, one neighbour word per path table, garbage in allocatable frames); recursive index 300; page-table indices (255,511,0,256)"
    //@ obligation C09 C09.recursive_unmap_1gib.shape_p3_absent.no_frames_requested_or_zeroed bounded="pool of 7 tables (4 path + 3 allocatable); tree-shaped sparse pre-state (target path, one neighbour word per path table, garbage in allocatable frames); recursive index 300; page-table indices (255,511,0,256)"
    //@ obligation C09 C09.recursive_unmap_1gib.shape_p3_absent.no_dangling_table_pointer bounded="pool of 7 tables (4 path + 3 allocatable); tree-shaped sparse pre-state (target path, one neighbour word per path table, garbage in allocatable frames); recursive index 300; page-table indices (255,511,0,256)"
    //@ obligation C09 C09.recursive_unmap_1gib.shape_p3_absent.no_access_outside_page_tables bounded="pool of 7 tables (4 path + 3 allocatable); tree-shaped sparse pre-state (target path, one neighbour word per path table, garbage in allocatable frames); recursive index 300; page-table indices (255,511,0,256)"
    //@ obligation C20 C20.recursive_unmap_1gib.uses_recursive_addresses_of_the_page bounded="pool of 7 tables (4 path + 3 allocatable); tree-shaped sparse pre-state (target path, one neighbour word per path table, garbage in allocatable frames); recursive index 300; page-table indices (255,511,0,256)"
    #[kani::proof]
    #[kani::stub(crate::structures::paging::page_table::PageTable::zero, zero_stub)]
    #[kani::stub(crate::addr::VirtAddr::as_mut_ptr, mmu_trap_as_mut_ptr)]
    fn c01_recursive_unmap_1gib_p3_absent_mid() {
        rec_unmap_step!(Size1GiB, "1gib", "p3_absent", P3_ABSENT, IDX_MID);
        kani::cover!(true, "c01_recursive_unmap_1gib_p3_absent_mid: reachable");
    }

    //@ obligation C02 C02.recursive_unmap_1gib.shape_p3_absent.documented_outcome tier=thorough bounded="pool of 7 tables (4 path + 3 allocatable); tree-shaped sparse pre-state (target path, one neighbour word per path table, garbage in allocatable frames); recursive index 300; page-table indices (256,0,510,511)"
    //@ obligation C02 C02.recursive_unmap_1gib.shape_p3_absent.error_leaves_every_mapping tier=thorough bounded="pool of 7 tables (4 path + 3 allocatable); tree-shaped sparse pre-state (target path, one neighbour word per path table, garbage in allocatable frames); recursive index 300; page-table indices (256,0,510,511)"
    //@ obligation C09 C09.recursive_unmap_1gib.shape_p3_absent.only_dictated_slots_change tier=thorough bounded="pool of 7 tables (4 path + 3 allocatable); tree-shaped sparse pre-state (target path, one neighbour word per path table, garbage in allocatable frames); recursive index 300; page-table indices (256,0,510,511)"
    //@ obligation C09 C09.recursive_unmap_1gib.shape_p3_absent.no_frames_requested_or_zeroed tier=thorough bounded="pool of 7 tables (4 path + 3 allocatable); tree-shaped sparse pre-state (target path, one neighbour word per path table, garbage in allocatable frames); recursive index 300; page-table indices (256,0,510,511)"
    //@ obligation C09 C09.recursive_unmap_1gib.shape_p3_absent.no_dangling_table_pointer tier=thorough bounded="pool of 7 tables (4 path + 3 allocatable); tree-shaped sparse pre-state (target path, one neighbour word per path table, garbage in allocatable frames); recursive index 300; page-table indices (256,0,510,511)"
    //@ obligation C09 C09.recursive_unmap_1gib.shape_p3_absent.no_access_outside_page_tables tier=thorough bounded="pool of 7 tables (4 path + 3 allocatable); tree-shaped sparse pre-state (target path, one neighbour word per path table, garbage in allocatable frames); recursive index 300; page-table indices (256,0,510,511)"
    //@ obligation C20 C20.recursive_unmap_1gib.uses_recursive_addresses_of_the_page tier=thorough bounded="pool of 7 tables (4 path + 3 allocatable); tree-shaped sparse pre-state (target path, one neighbour word per path table, garbage in allocatable frames); recursive index 300; page-table indices (256,0,510,511)"
    #[kani::proof]
    #[kani::stub(crate::structures::paging::page_table::PageTable::zero, zero_stub)]
    #[kani::stub(crate::addr::VirtAddr::as_mut_ptr, mmu_trap_as_mut_ptr)]
    fn c01_recursive_unmap_1gib_p3_absent_up() {
        rec_unmap_step!(Size1GiB, "1gib", "p3_absent", P3_ABSENT, IDX_UP);
        kani::cover!(true, "c01_recursive_unmap_1gib_p3_absent_up: reachable");
    }

    //@ obligation C02 C02.recursive_unmap_1gib.shape_p3_huge.documented_outcome tier=thorough bounded="pool of 7 tables (4 path + 3 allocatable); tree-shaped sparse pre-state (target path, one neighbour word per path table, garbage in allocatable frames); recursive index 300; page-table indices (255,511,0,256)"
    //@ obligation C01 C01.recursive_unmap_1gib.shape_p3_huge.returns_mapped_frame tier=thorough bounded="pool of 7 tables (4 path + 3 allocatable); tree-shaped sparse pre-state (target path, one neighbour word per path table, garbage in allocatable frames); recursive index 300; page-table indices (255,511,0,256)"
    //@ obligation C01 C01.recursive_unmap_1gib.shape_p3_huge.target_not_mapped_after tier=thorough bounded="pool of 7 tables (4 path + 3 allocatable); tree-shaped sparse pre-state (target path, one neighbour word per path table, garbage in allocatable frames); recursive index 300; page-table indices (255,511,0,256)"
    //@ obligation C11 C11.recursive_unmap_1gib.shape_p3_huge.target_not_mapped_after tier=thorough bounded="pool of 7 tables (4 path + 3 allocatable); tree-shaped sparse pre-state (target path, one neighbour word per path table, garbage in allocatable frames); recursive index 300; page-table indices (255,511,0,256)"
    //@ obligation C01 C01.recursive_unmap_1gib.shape_p3_huge.other_addresses_unchanged tier=thorough bounded="pool of 7 tables (4 path + 3 allocatable); tree-shaped sparse pre-state (target path, one neighbour word per path table, garbage in allocatable frames); recursive index 300; page-table indices (255,511,0,256)"
    //@ obligation C11 C11.recursive_unmap_1gib.shape_p3_huge.other_addresses_unchanged tier=thorough bounded="pool of 7 tables (4 path + 3 allocatable); tree-shaped sparse pre-state (target path, one neighbour word per path table, garbage in allocatable frames); recursive index 300; page-table indices (255,511,0,256)"
    //@ obligation C01 C01.recursive_unmap_1gib.shape_p3_huge.result_reports_page tier=thorough bounded="pool of 7 tables (4 path + 3 allocatable); tree-shaped sparse pre-state (target path, one neighbour word per path table, garbage in allocatable frames); recursive index 300; page-table indices (255,511,0,256)"
    //@ obligation C11 C11.recursive_unmap_1gib.shape_p3_huge.token_names_page tier=thorough bounded="pool of 7 tables (4 path + 3 allocatable); tree-shaped sparse pre-state (target path, one neighbour word per path table, garbage in allocatable frames); recursive index 300; page-table indices (255,511,0,256)"
    //@ obligation C09 C09.recursive_unmap_1gib.shape_p3_huge.only_dictated_slots_change tier=thorough bounded="pool of 7 tables (4 path + 3 allocatable); tree-shaped sparse pre-state (target path, one neighbour word per path table, garbage in allocatable frames); recursive index 300; page-table indices (255,511,0,256)"
    //@ obligation C09 C09.recursive_unmap_1gib.shape_p3_huge.no_frames_requested_or_zeroed tier=thorough bounded="pool of 7 tables (4 path + 3 allocatable); tree-shaped sparse pre-state (target path, one neighbour word per path table, garbage in allocatable frames); recursive index 300; page-table indices (255,511,0,256)"
    //@ obligation C09 C09.recursive_unmap_1gib.shape_p3_huge.no_dangling_table_pointer tier=thorough bounded="pool of 7 tables (4 path + 3 allocatable); tree-shaped sparse pre-state (target path, one neighbour word per path table, garbage in allocatable frames); recursive index 300; page-table indices (255,511,0,256)"
    //@ obligation C09 C09.recursive_unmap_1gib.shape_p3_huge.no_access_outside_page_tables tier=thorough bounded="pool of 7 tables (4 path + 3 allocatable); tree-shaped sparse pre-state (target path, one neighbour word per path table, garbage in allocatable frames); recursive index 300; page-table indices (255,511,0,256)"
    //@ obligation C20 C20.recursive_unmap_1gib.uses_recursive_addresses_of_the_page tier=thorough bounded="pool of 7 tables (4 path + 3 allocatable); tree-shaped sparse pre-state (target path, one neighbour word per path table, garbage in allocatable frames); recursive index 300; page-table indices (255,511,0,256)"
    #[kani::proof]
    #[kani::stub(crate::structures::paging::page_table::PageTable::zero, zero_stub)]
    #[kani::stub(crate::addr::VirtAddr::as_mut_ptr, mmu_trap_as_mut_ptr)]
    fn c01_recursive_unmap_1gib_p3_huge_mid() {
        rec_unmap_step!(Size1GiB, "1gib", "p3_huge", P3_HUGE, IDX_MID);
        kani::cover!(true, "c01_recursive_unmap_1gib_p3_huge_mid: reachable");
    }

    //@ obligation C02 C02.recursive_unmap_1gib.shape_p3_huge.documented_outcome bounded="pool of 7 tables (4 path + 3 allocatable); tree-shaped sparse pre-state (target path, one neighbour word per path table, garbage in allocatable frames); recursive index 300; page-table indices (256,0,510,511)"
    //@ obligation C01 C01.recursive_unmap_1gib.shape_p3_huge.returns_mapped_frame bounded="pool of 7 tables (4 path + 3 allocatable); tree-shaped sparse pre-state (target path, one neighbour word per path table, garbage in allocatable frames); recursive index 300; page-table indices (256,0,510,511)"
    //@ obligation C01 C01.recursive_unmap_1gib.shape_p3_huge.target_not_mapped_after bounded="pool of 7 tables (4 path + 3 allocatable); tree-shaped sparse pre-state (target path, one neighbour word per path table, garbage in allocatable frames); recursive index 300; page-table indices (256,0,510,511)"
    //@ obligation C11 C11.recursive_unmap_1gib.shape_p3_huge.target_not_mapped_after bounded="pool of 7 tables (4 path + 3 allocatable); tree-shaped sparse pre-state (target path, one neighbour word per path table, garbage in allocatable frames); recursive index 300; page-table indices (256,0,510,511)"
    //@ obligation C01 C01.recursive_unmap_1gib.shape_p3_huge.other_addresses_unchanged bounded="pool of 7 tables (4 path + 3 allocatable); tree-shaped sparse pre-state (target path, one neighbour word per path table, garbage in allocatable frames); recursive index 300; page-table indices (256,0,510,511)"
    //@ obligation C11 C11.recursive_unmap_1gib.shape_p3_huge.other_addresses_unchanged bounded="pool of 7 tables (4 path + 3 allocatable); tree-shaped sparse pre-state (target path, one neighbour word per path table, garbage in allocatable frames); recursive index 300; page-table indices (256,0,510,511)"
    //@ obligation C01 C01.recursive_unmap_1gib.shape_p3_huge.result_reports_page bounded="pool of 7 tables (4 path + 3 allocatable); tree-shaped sparse pre-state (target path, one neighbour word per path table, garbage in allocatable frames); recursive index 300; page-table indices (256,0,510,511)"
    //@ obligation C11 C11.recursive_unmap_1gib.shape_p3_huge.token_names_page bounded="pool of 7 tables (4 path + 3 allocatable); tree-shaped sparse pre-state (target path, one neighbour word per path table, garbage in allocatable frames); recursive index 300; page-table indices (256,0,510,511)"
    //@ obligation C09 C09.recursive_unmap_1gib.shape_p3_huge.only_dictated_slots_change bounded="pool of 7 tables (4 path + 3 allocatable); tree-shaped sparse pre-state (target path, one neighbour word per path table, garbage in allocatable frames); recursive index 300; page-table indices (256,0,510,511)"
    //@ obligation C09 C09.recursive_unmap_1gib.shape_p3_huge.no_frames_requested_or_zeroed bounded="pool of 7 tables (4 path + 3 allocatable); tree-shaped sparse pre-state (target path, one neighbour word per path table, garbage in allocatable frames); recursive index 300; page-table indices (256,0,510,511)"
    //@ obligation C09 C09.recursive_unmap_1gib.shape_p3_huge.no_dangling_table_pointer bounded="pool of 7 tables (4 path + 3 allocatable); tree-shaped sparse pre-state (target path, one neighbour word per path table, garbage in allocatable frames); recursive index 300; page-table indices (256,0,510,511)"
    //@ obligation C09 C09.recursive_unmap_1gib.shape_p3_huge.no_access_outside_page_tables bounded="pool of 7 tables (4 path + 3 allocatable); tree-shaped sparse pre-state (target path, one neighbour word per path table, garbage in allocatable frames); recursive index 300; page-table indices (256,0,510,511)"
    //@ obligation C20 C20.recursive_unmap_1gib.uses_recursive_addresses_of_the_page bounded="pool of 7 tables (4 path + 3 allocatable); tree-shaped sparse pre-state (target path, one neighbour word per path table, garbage in allocatable frames); recursive index 300; page-table indices (256,0,510,511)"
    #[kani::proof]
    #[kani::stub(crate::structures::paging::page_table::PageTable::zero, zero_stub)]
    #[kani::stub(crate::addr::VirtAddr::as_mut_ptr, mmu_trap_as_mut_ptr)]
    fn c01_recursive_unmap_1gib_p3_huge_up() {
        rec_unmap_step!(Size1GiB, "1gib", "p3_huge", P3_HUGE, IDX_UP);
        kani::cover!(true, "c01_recursive_unmap_1gib_p3_huge_up: reachable");
    }

    //@ obligation C02 C02.recursive_unmap_1gib.shape_table_entry.no_success_for_nonexistent_size tier=thorough bounded="pool of 7 tables (4 path + 3 allocatable); tree-shaped sparse pre-state (target path, one neighbour word per path table, garbage in allocatable frames); recursive index 300; page-table indices (255,511,0,256)"
    //@ obligation C02 C02.recursive_unmap_1gib.shape_table_entry.documented_outcome tier=thorough bounded="pool of 7 tables (4 path + 3 allocatable); tree-shaped sparse pre-state (target path, one neighbour word per path table, garbage in allocatable frames); recursive index 300; page-table indices (255,511,0,256)"
    //@ obligation C02 C02.recursive_unmap_1gib.shape_table_entry.error_leaves_every_mapping tier=thorough bounded="pool of 7 tables (4 path + 3 allocatable); tree-shaped sparse pre-state (target path, one neighbour word per path table, garbage in allocatable frames); recursive index 300; page-table indices (255,511,0,256)"
    //@ obligation C09 C09.recursive_unmap_1gib.shape_table_entry.only_dictated_slots_change tier=thorough bounded="pool of 7 tables (4 path + 3 allocatable); tree-shaped sparse pre-state (target path, one neighbour word per path table, garbage in allocatable frames); recursive index 300; page-table indices (255,511,0,256)"
    //@ obligation C09 C09.recursive_unmap_1gib.shape_table_entry.no_frames_requested_or_zeroed tier=thorough bounded="pool of 7 tables (4 path + 3 allocatable); tree-shaped sparse pre-state (target path, one neighbour word per path table, garbage in allocatable frames); recursive index 300; page-table indices (255,511,0,256)"
    //@ obligation C09 C09.recursive_unmap_1gib.shape_table_entry.no_dangling_table_pointer tier=thorough bounded="pool of 7 tables (4 path + 3 allocatable); tree-shaped sparse pre-state (target path, one neighbour word per path table, garbage in allocatable frames); recursive index 300; page-table indices (255,511,0,256)"
    //@ obligation C09 C09.recursive_unmap_1gib.shape_table_entry.no_access_outside_page_tables tier=thorough bounded="pool of 7 tables (4 path + 3 allocatable); tree-shaped sparse pre-state (target path, one neighbour word per path table, garbage in allocatable frames); recursive index 300; page-table indices (255,511,0,256)"
    //@ obligation C20 C20.recursive_unmap_1gib.uses_recursive_addresses_of_the_page tier=thorough bounded="pool of 7 tables (4 path + 3 allocatable); tree-shaped sparse pre-state (target path, one neighbour word per path table, garbage in allocatable frames); recursive index 300; page-table indices (255,511,0,256)"
    #[kani::proof]
    #[kani::stub(crate::structures::paging::page_table::PageTable::zero, zero_stub)]
    #[kani::stub(crate::addr::VirtAddr::as_mut_ptr, mmu_trap_as_mut_ptr)]
    fn c01_recursive_unmap_1gib_table_entry_mid() {
        rec_unmap_step!(Size1GiB, "1gib", "table_entry", P3_TABLE, IDX_MID);
        kani::cover!(true, "c01_recursive_unmap_1gib_table_entry_mid: reachable");
    }

    //@ obligation C02 C02.recursive_unmap_1gib.shape_table_entry.no_success_for_nonexistent_size bounded="pool of 7 tables (4 path + 3 allocatable); tree-shaped sparse pre-state (target path, one neighbour word per path table, garbage in allocatable frames); recursive index 300; page-table indices (256,0,510,511)"
    //@ obligation C02 C02.recursive_unmap_1gib.shape_table_entry.documented_outcome bounded="pool of 7 tables (4 path + 3 allocatable); tree-shaped sparse pre-state (target path, one neighbour word per path table, garbage in allocatable frames); recursive index 300; page-table indices (256,0,510,511)"
    //@ obligation C02 C02.recursive_unmap_1gib.shape_table_entry.error_leaves_every_mapping bounded="pool of 7 tables (4 path + 3 allocatable); tree-shaped sparse pre-state (target path, one neighbour word per path table, garbage in allocatable frames); recursive index 300; page-table indices (256,0,510,511)"
    //@ obligation C09 C09.recursive_unmap_1gib.shape_table_entry.only_dictated_slots_change bounded="pool of 7 tables (4 path + 3 allocatable); tree-shaped sparse pre-state (target path, one neighbour word per path table, garbage in allocatable frames); recursive index 300; page-table indices (256,0,510,511)"
    //@ obligation C09 C09.recursive_unmap_1gib.shape_table_entry.no_frames_requested_or_zeroed bounded="pool of 7 tables (4 path + 3 allocatable); tree-shaped sparse pre-state (target path, one neighbour word per path table, garbage in allocatable frames); recursive index 300; page-table indices (256,0,510,511)"
    //@ obligation C09 C09.recursive_unmap_1gib.shape_table_entry.no_dangling_table_pointer bounded="pool of 7 tables (4 path + 3 allocatable); tree-shaped sparse pre-state (target path, one neighbour word per path table, garbage in allocatable frames); recursive index 300; page-table indices (256,0,510,511)"
    //@ obligation C09 C09.recursive_unmap_1gib.shape_table_entry.no_access_outside_page_tables bounded="pool of 7 tables (4 path + 3 allocatable); tree-shaped sparse pre-state (target path, one neighbour word per path table, garbage in allocatable frames); recursive index 300; page-table indices (256,0,510,511)"
    //@ obligation C20 C20.recursive_unmap_1gib.uses_recursive_addresses_of_the_page bounded="pool of 7 tables (4 path + 3 allocatable); tree-shaped sparse pre-state (target path, one neighbour word per path table, garbage in allocatable frames); recursive index 300; page-table indices (256,0,510,511)"
    #[kani::proof]
    #[kani::stub(crate::structures::paging::page_table::PageTable::zero, zero_stub)]
    #[kani::stub(crate::addr::VirtAddr::as_mut_ptr, mmu_trap_as_mut_ptr)]
    fn c01_recursive_unmap_1gib_table_entry_up() {
        rec_unmap_step!(Size1GiB, "1gib", "table_entry", P3_TABLE, IDX_UP);
        kani::cover!(true, "c01_recursive_unmap_1gib_table_entry_up: reachable");
    }

    //@ obligation C02 C02.recursive_unmap_1gib.shape_sym.documented_outcome tier=thorough bounded="pool of 7 tables (4 path + 3 allocatable); tree-shaped sparse pre-state (target path, one neighbour word per path table, garbage in allocatable frames); recursive index 300; page-table indices (255,511,0,256)"
    //@ obligation C01 C01.recursive_unmap_1gib.shape_sym.returns_mapped_frame tier=thorough bounded="pool of 7 tables (4 path + 3 allocatable); tree-shaped sparse pre-state (target path, one neighbour word per path table, garbage in allocatable frames); recursive index 300; page-table indices (255,511,0,256)"
    //@ obligation C01 C01.recursive_unmap_1gib.shape_sym.target_not_mapped_after tier=thorough bounded="pool of 7 tables (4 path + 3 allocatable); tree-shaped sparse pre-state (target path, one neighbour word per path table, garbage in allocatable frames); recursive index 300; page-table indices (255,511,0,256)"
    //@ obligation C11 C11.recursive_unmap_1gib.shape_sym.target_not_mapped_after tier=thorough bounded="pool of 7 tables (4 path + 3 allocatable); tree-shaped sparse pre-state (target path, one neighbour word per path table, garbage in allocatable frames); recursive index 300; page-table indices (255,511,0,256)"
    //@ obligation C01 C01.recursive_unmap_1gib.shape_sym.other_addresses_unchanged tier=thorough bounded="pool of 7 tables (4 path + 3 allocatable); tree-shaped sparse pre-state (target path, one neighbour word per path table, garbage in allocatable frames); recursive index 300; page-table indices (255,511,0,256)"
    //@ obligation C11 C11.recursive_unmap_1gib.shape_sym.other_addresses_unchanged tier=thorough bounded="pool of 7 tables (4 path + 3 allocatable); tree-shaped sparse pre-state (target path, one neighbour word per path table, garbage in allocatable frames); recursive index 300; page-table indices (255,511,0,256)"
    //@ obligation C01 C01.recursive_unmap_1gib.shape_sym.result_reports_page tier=thorough bounded="pool of 7 tables (4 path + 3 allocatable); tree-shaped sparse pre-state (target path, one neighbour word per path table, garbage in allocatable frames); recursive index 300; page-table indices (255,511,0,256)"
    //@ obligation C11 C11.recursive_unmap_1gib.shape_sym.token_names_page tier=thorough bounded="pool of 7 tables (4 path + 3 allocatable); tree-shaped sparse pre-state (target path, one neighbour word per path table, garbage in allocatable frames); recursive index 300; page-table indices (255,511,0,256)"
    //@ obligation C02 C02.recursive_unmap_1gib.shape_sym.error_leaves_every_mapping tier=thorough bounded="pool of 7 tables (4 path + 3 allocatable); tree-shaped sparse pre-state (target path, one neighbour word per path table, garbage in allocatable frames); recursive index 300; page-table indices (255,511,0,256)"
    //@ obligation C09 C09.recursive_unmap_1gib.shape_sym.only_dictated_slots_change tier=thorough bounded="pool of 7 tables (4 path + 3 allocatable); tree-shaped sparse pre-state (target path, one neighbour word per path table, garbage in allocatable frames); recursive index 300; page-table indices (255,511,0,256)"
    //@ obligation C09 C09.recursive_unmap_1gib.shape_sym.no_frames_requested_or_zeroed tier=thorough bounded="pool of 7 tables (4 path + 3 allocatable); tree-shaped sparse pre-state (target path, one neighbour word per path table, garbage in allocatable frames); recursive index 300; page-table indices (255,511,0,256)"
    //@ obligation C09 C09.recursive_unmap_1gib.shape_sym.no_dangling_table_pointer tier=thorough bounded="pool of 7 tables (4 path + 3 allocatable); tree-shaped sparse pre-state (target path, one neighbour word per path table, garbage in allocatable frames); recursive index 300; page-table indices (255,511,0,256)"
    //@ obligation C09 C09.recursive_unmap_1gib.shape_sym.no_access_outside_page_tables tier=thorough bounded="pool of 7 tables (4 path + 3 allocatable); tree-shaped sparse pre-state (target path, one neighbour word per path table, garbage in allocatable frames); recursive index 300; page-table indices (255,511,0,256)"
    //@ obligation C20 C20.recursive_unmap_1gib.uses_recursive_addresses_of_the_page tier=thorough bounded="pool of 7 tables (4 path + 3 allocatable); tree-shaped sparse pre-state (target path, one neighbour word per path table, garbage in allocatable frames); recursive index 300; page-table indices (255,511,0,256)"
    #[kani::proof]
    #[kani::stub(crate::structures::paging::page_table::PageTable::zero, zero_stub)]
    #[kani::stub(crate::addr::VirtAddr::as_mut_ptr, mmu_trap_as_mut_ptr)]
    fn c01_recursive_unmap_1gib_sym_mid() {
        rec_unmap_step!(Size1GiB, "1gib", "sym", P3_SYM, IDX_MID);
        kani::cover!(true, "c01_recursive_unmap_1gib_sym_mid: reachable");
    }

    //@ obligation C02 C02.recursive_unmap_1gib.shape_sym.documented_outcome bounded="pool of 7 tables (4 path + 3 allocatable); tree-shaped sparse pre-state (target path, one neighbour word per path table, garbage in allocatable frames); recursive index 300; page-table indices (256,0,510,511)"
    //@ obligation C01 C01.recursive_unmap_1gib.shape_sym.returns_mapped_frame bounded="pool of 7 tables (4 path + 3 allocatable); tree-shaped sparse pre-state (target path, one neighbour word per path table, garbage in allocatable frames); recursive index 300; page-table indices (256,0,510,511)"
    //@ obligation C01 C01.recursive_unmap_1gib.shape_sym.target_not_mapped_after bounded="pool of 7 tables (4 path + 3 allocatable); tree-shaped sparse pre-state (target path, one neighbour word per path table, garbage in allocatable frames); recursive index 300; page-table indices (256,0,510,511)"
    //@ obligation C11 C11.recursive_unmap_1gib.shape_sym.target_not_mapped_after bounded="pool of 7 tables (4 path + 3 allocatable); tree-shaped sparse pre-state (target path, one neighbour word per path table, garbage in allocatable frames); recursive index 300; page-table indices (256,0,510,511)"
    //@ obligation C01 C01.recursive_unmap_1gib.shape_sym.other_addresses_unchanged bounded="pool of 7 tables (4 path + 3 allocatable); tree-shaped sparse pre-state (target path, one neighbour word per path table, garbage in allocatable frames); recursive index 300; page-table indices (256,0,510,511)"
    //@ obligation C11 C11.recursive_unmap_1gib.shape_sym.other_addresses_unchanged bounded="pool of 7 tables (4 path + 3 allocatable); tree-shaped sparse pre-state (target path, one neighbour word per path table, garbage in allocatable frames); recursive index 300; page-table indices (256,0,510,511)"
    //@ obligation C01 C01.recursive_unmap_1gib.shape_sym.result_reports_page bounded="pool of 7 tables (4 path + 3 allocatable); tree-shaped sparse pre-state (target path, one neighbour word per path table, garbage in allocatable frames); recursive index 300; page-table indices (256,0,510,511)"
    //@ obligation C11 C11.recursive_unmap_1gib.shape_sym.token_names_page bounded="pool of 7 tables (4 path + 3 allocatable); tree-shaped sparse pre-state (target path, one neighbour word per path table, garbage in allocatable frames); recursive index 300; page-table indices (256,0,510,511)"
    //@ obligation C02 C02.recursive_unmap_1gib.shape_sym.error_leaves_every_mapping bounded="pool of 7 tables (4 path + 3 allocatable); tree-shaped sparse pre-state (target path, one neighbour word per path table, garbage in allocatable frames); recursive index 300; page-table indices (256,0,510,511)"
    //@ obligation C09 C09.recursive_unmap_1gib.shape_sym.only_dictated_slots_change bounded="pool of 7 tables (4 path + 3 allocatable); tree-shaped sparse pre-state (target path, one neighbour word per path table, garbage in allocatable frames); recursive index 300; page-table indices (256,0,510,511)"
    //@ obligation C09 C09.recursive_unmap_1gib.shape_sym.no_frames_requested_or_zeroed bounded="pool of 7 tables (4 path + 3 allocatable); tree-shaped sparse pre-state (target path, one neighbour word per path table, garbage in allocatable frames); recursive index 300; page-table indices (256,0,510,511)"
    //@ obligation C09 C09.recursive_unmap_1gib.shape_sym.no_dangling_table_pointer bounded="pool of 7 tables (4 path + 3 allocatable); tree-shaped sparse pre-state (target path, one neighbour word per path table, garbage in allocatable frames); recursive index 300; page-table indices (256,0,510,511)"
    //@ obligation C09 C09.recursive_unmap_1gib.shape_sym.no_access_outside_page_tables bounded="pool of 7 tables (4 path + 3 allocatable); tree-shaped sparse pre-state (target path, one neighbour word per path table, garbage in allocatable frames); recursive index 300; page-table indices (256,0,510,511)"
    //@ obligation C20 C20.recursive_unmap_1gib.uses_recursive_addresses_of_the_page bounded="pool of 7 tables (4 path + 3 allocatable); tree-shaped sparse pre-state (target path, one neighbour word per path table, garbage in allocatable frames); recursive index 300; page-table indices (256,0,510,511)"
    #[kani::proof]
    #[kani::stub(crate::structures::paging::page_table::PageTable::zero, zero_stub)]
    #[kani::stub(crate::addr::VirtAddr::as_mut_ptr, mmu_trap_as_mut_ptr)]
    fn c01_recursive_unmap_1gib_sym_up() {
        rec_unmap_step!(Size1GiB, "1gib", "sym", P3_SYM, IDX_UP);
        kani::cover!(true, "c01_recursive_unmap_1gib_sym_up: reachable");
    }

    //@ obligation C02 C02.recursive_update_flags_2mib.shape_p4_absent.documented_outcome bounded="pool of 7 tables (4 path + 3 allocatable); tree-shaped sparse pre-state (target path, one neighbour word per path table, garbage in allocatable frames); recursive index 300; page-table indices (255,511,0,256)"
    //@ obligation C02 C02.recursive_update_flags_2mib.shape_p4_absent.error_leaves_every_mapping bounded="pool of 7 tables (4 path + 3 allocatable); tree-shaped sparse pre-state (target path, one neighbour word per path table, garbage in allocatable frames); recursive index 300; page-table indices (255,511,0,256)"
    //@ obligation C09 C09.recursive_update_flags_2mib.shape_p4_absent.only_dictated_slots_change bounded="pool of 7 tables (4 path + 3 allocatable); tree-shaped sparse pre-state (target path, one neighbour word per path table, garbage in allocatable frames); recursive index 300; page-table indices (255,511,0,256)"
    //@ obligation C09 C09.recursive_update_flags_2mib.shape_p4_absent.no_frames_requested_or_zeroed bounded="pool of 7 tables (4 path + 3 allocatable); tree-shaped sparse pre-state (target path, one neighbour word per path table, garbage in allocatable frames); recursive index 300; page-table indices (255,511,0,256)"
    //@ obligation C09 C09.recursive_update_flags_2mib.shape_p4_absent.no_dangling_table_pointer bounded="pool of 7 tables (4 path + 3 allocatable); tree-shaped sparse pre-state (target path, one neighbour word per path table, garbage in allocatable frames); recursive index 300; page-table indices (255,511,0,256)"
    //@ obligation C09 C09.recursive_update_flags_2mib.shape_p4_absent.no_access_outside_page_tables bounded="pool of 7 tables (4 path + 3 allocatable); tree-shaped sparse pre-state (target path, one neighbour word per path table, garbage in allocatable frames); recursive index 300; page-table indices (255,511,0,256)"
    #[kani::proof]
    #[kani::stub(crate::structures::paging::page_table::PageTable::zero, zero_stub)]
    #[kani::stub(crate::addr::VirtAddr::as_mut_ptr, mmu_trap_as_mut_ptr)]
    fn c01_recursive_update_flags_2mib_p4_absent_mid() {
        rec_update_flags_step!(Size2MiB, "2mib", "p4_absent", P4_ABSENT, IDX_MID);
        kani::cover!(true, "c01_recursive_update_flags_2mib_p4_absent_mid: reachable");
    }

    //@ obligation C02 C02.recursive_update_flags_2mib.shape_p4_absent.documented_outcome tier=thorough bounded="pool of 7 tables (4 path + 3 allocatable); tree-shaped sparse pre-state (target path, one neighbour word per path table, garbage in allocatable frames); recursive index 300; page-table indices (256,0,510,511)"
    //@ obligation C02 C02.recursive_update_flags_2mib.shape_p4_absent.error_leaves_every_mapping tier=thorough bounded="pool of 7 tables (4 path + 3 allocatable); tree-shaped sparse pre-state (target path, one neighbour word per path table, garbage in allocatable frames); recursive index 300; page-table indices (256,0,510,511)"
    //@ obligation C09 C09.recursive_update_flags_2mib.shape_p4_absent.only_dictated_slots_change tier=thorough bounded="pool of 7 tables (4 path + 3 allocatable); tree-shaped sparse pre-state (target path, one neighbour word per path table, garbage in allocatable frames); recursive index 300; page-table indices (256,0,510,511)"
    //@ obligation C09 C09.recursive_update_flags_2mib.shape_p4_absent.no_frames_requested_or_zeroed tier=thorough bounded="pool of 7 tables (4 path + 3 allocatable); tree-shaped sparse pre-state (target path, one neighbour word per path table, garbage in allocatable frames); recursive index 300; page-table indices (256,0,510,511)"
    //@ obligation C09 C09.recursive_update_flags_2mib.shape_p4_absent.no_dangling_table_pointer tier=thorough bounded="pool of 7 tables (4 path + 3 allocatable); tree-shaped sparse pre-state (target path, one neighbour word per path table, garbage in allocatable frames); recursive index 300; page-table indices (256,0,510,511)"
    //@ obligation C09 C09.recursive_update_flags_2mib.shape_p4_absent.no_access_outside_page_tables tier=thorough bounded="pool of 7 tables (4 path + 3 allocatable); tree-shaped sparse pre-state (target path, one neighbour word per path table, garbage in allocatable frames); recursive index 300; page-table indices (256,0,510,511)"
    #[kani::proof]
    #[kani::stub(crate::structures::paging::page_table::PageTable::zero, zero_stub)]
    #[kani::stub(crate::addr::VirtAddr::as_mut_ptr, mmu_trap_as_mut_ptr)]
    fn c01_recursive_update_flags_2mib_p4_absent_up() {
        rec_update_flags_step!(Size2MiB, "2mib", "p4_absent", P4_ABSENT, IDX_UP);
        kani::cover!(true, "c01_recursive_update_flags_2mib_p4_absent_up: reachable");
    }

    //@ obligation C02 C02.recursive_update_flags_2mib.shape_p3_absent.documented_outcome bounded="pool of 7 tables (4 path + 3 allocatable); tree-shaped sparse pre-state (target path, one neighbour word per path table, garbage in allocatable frames); recursive index 300; page-table indices (255,511,0,256)"
    //@ obligation C02 C02.recursive_update_flags_2mib.shape_p3_absent.error_leaves_every_mapping bounded="pool of 7 tables (4 path + 3 allocatable); tree-shaped sparse pre-state (target path, one neighbour word per path table, garbage in allocatable frames); recursive index 300; page-table indices (255,511,0,256)"
    //@ obligation C09 C09.recursive_update_flags_2mib.shape_p3_absent.only_dictated_slots_change bounded="pool of 7 tables (4 path + 3 allocatable); tree-shaped sparse pre-state (target path, one neighbour word per path table, garbage in allocatable frames); recursive index 300; page-table indices (255,511,0,256)"
    //@ obligation C09 C09.recursive_update_flags_2mib.shape_p3_absent.no_frames_requested_or_zeroed bounded="pool of 7 tables (4 path + 3 allocatable); tree-shaped sparse pre-state (target path, one neighbour word per path table, garbage in allocatable frames); recursive index 300; page-table indices (255,511,0,256)"
    //@ obligation C09 C09.recursive_update_flags_2mib.shape_p3_absent.no_dangling_table_pointer bounded="pool of 7 tables (4 path + 3 allocatable); tree-shaped sparse pre-state (target path, one neighbour word per path table, garbage in allocatable frames); recursive index 300; page-table indices (255,511,0,256)"
    //@ obligation C09 C09.recursive_update_flags_2mib.shape_p3_absent.no_access_outside_page_tables bounded="pool of 7 tables (4 path + 3 allocatable); tree-shaped sparse pre-state (target path, one neighbour word per path table, garbage in allocatable frames); recursive index 300; page-table indices (255,511,0,256)"
    //@ obligation C20 C20.recursive_update_flags_2mib.uses_recursive_addresses_of_the_page bounded="pool of 7 tables (4 path + 3 allocatable); tree-shaped sparse pre-state (target path, one neighbour word per path table, garbage in allocatable frames); recursive index 300; page-table indices (255,511,0,256)"
    #[kani::proof]
    #[kani::stub(crate::structures::paging::page_table::PageTable::zero, zero_stub)]
    #[kani::stub(crate::addr::VirtAddr::as_mut_ptr, mmu_trap_as_mut_ptr)]
    fn c01_recursive_update_flags_2mib_p3_absent_mid() {
        rec_update_flags_step!(Size2MiB, "2mib", "p3_absent", P3_ABSENT, IDX_MID);
        kani::cover!(true, "c01_recursive_update_flags_2mib_p3_absent_mid: reachable");
    }

    //@ obligation C02 C02.recursive_update_flags_2mib.shape_p3_absent.documented_outcome tier=thorough bounded="pool of 7 tables (4 path + 3 allocatable); tree-shaped sparse pre-state (target path, one neighbour word per path table, garbage in allocatable frames); recursive index 300; page-table indices (256,0,510,511)"
    //@ obligation C02 C02.recursive_update_flags_2mib.shape_p3_absent.error_leaves_every_mapping tier=thorough bounded="pool of 7 tables (4 path + 3 allocatable); tree-shaped sparse pre-state (target path, one neighbour word per path table, garbage in allocatable frames); recursive index 300; page-table indices (256,0,510,511)"
    //@ obligation C09 C09.recursive_update_flags_2mib.shape_p3_absent.only_dictated_slots_change tier=thorough bounded="pool of 7 tables (4 path + 3 allocatable); tree-shaped sparse pre-state (target path, one neighbour word per path table, garbage in allocatable frames); recursive index 300; page-table indices (256,0,510,511)"
    //@ obligation C09 C09.recursive_update_flags_2mib.shape_p3_absent.no_frames_requested_or_zeroed tier=thorough bounded="pool of 7 tables (4 path + 3 allocatable); tree-shaped sparse pre-state (target path, one neighbour word per path table, garbage in allocatable frames); recursive index 300; page-table indices (256,0,510,511)"
    //@ obligation C09 C09.recursive_update_flags_2mib.shape_p3_absent.no_dangling_table_pointer tier=thorough bounded="pool of 7 tables (4 path + 3 allocatable); tree-shaped sparse pre-state (target path, one neighbour word per path table, garbage in allocatable frames); recursive index 300; page-table indices (256,0,510,511)"
    //@ obligation C09 C09.recursive_update_flags_2mib.shape_p3_absent.no_access_outside_page_tables tier=thorough bounded="pool of 7 tables (4 path + 3 allocatable); tree-shaped sparse pre-state (target path, one neighbour word per path table, garbage in allocatable frames); recursive index 300; page-table indices (256,0,510,511)"
    //@ obligation C20 C20.recursive_update_flags_2mib.uses_recursive_addresses_of_the_page tier=thorough bounded="pool of 7 tables (4 path + 3 allocatable); tree-shaped sparse pre-state (target path, one neighbour word per path table, garbage in allocatable frames); recursive index 300; page-table indices (256,0,510,511)"
    #[kani::proof]
    #[kani::stub(crate::structures::paging::page_table::PageTable::zero, zero_stub)]
    #[kani::stub(crate::addr::VirtAddr::as_mut_ptr, mmu_trap_as_mut_ptr)]
    fn c01_recursive_update_flags_2mib_p3_absent_up() {
        rec_update_flags_step!(Size2MiB, "2mib", "p3_absent", P3_ABSENT, IDX_UP);
        kani::cover!(true, "c01_recursive_update_flags_2mib_p3_absent_up: reachable");
    }

    //@ obligation C02 C02.recursive_update_flags_2mib.shape_p3_huge.huge_parent_is_reported_not_walked bounded="pool of 7 tables (4 path + 3 allocatable); tree-shaped sparse pre-state (target path, one neighbour word per path table, garbage in allocatable frames); recursive index 300; page-table indices (255,511,0,256)"
    //@ obligation C02 C02.recursive_update_flags_2mib.shape_p3_huge.documented_outcome bounded="pool of 7 tables (4 path + 3 allocatable); tree-shaped sparse pre-state (target path, one neighbour word per path table, garbage in allocatable frames); recursive index 300; page-table indices (255,511,0,256)"
    //@ obligation C02 C02.recursive_update_flags_2mib.shape_p3_huge.error_leaves_every_mapping bounded="pool of 7 tables (4 path + 3 allocatable); tree-shaped sparse pre-state (target path, one neighbour word per path table, garbage in allocatable frames); recursive index 300; page-table indices (255,511,0,256)"
    //@ obligation C09 C09.recursive_update_flags_2mib.shape_p3_huge.only_dictated_slots_change bounded="pool of 7 tables (4 path + 3 allocatable); tree-shaped sparse pre-state (target path, one neighbour word per path table, garbage in allocatable frames); recursive index 300; page-table indices (255,511,0,256)"
    //@ obligation C09 C09.recursive_update_flags_2mib.shape_p3_huge.no_frames_requested_or_zeroed bounded="pool of 7 tables (4 path + 3 allocatable); tree-shaped sparse pre-state (target path, one neighbour word per path table, garbage in allocatable frames); recursive index 300; page-table indices (255,511,0,256)"
    //@ obligation C09 C09.recursive_update_flags_2mib.shape_p3_huge.no_dangling_table_pointer bounded="pool of 7 tables (4 path + 3 allocatable); tree-shaped sparse pre-state (target path, one neighbour word per path table, garbage in allocatable frames); recursive index 300; page-table indices (255,511,0,256)"
    //@ obligation C09 C09.recursive_update_flags_2mib.shape_p3_huge.no_access_outside_page_tables bounded="pool of 7 tables (4 path + 3 allocatable); tree-shaped sparse pre-state (target path, one neighbour word per path table, garbage in allocatable frames); recursive index 300; page-table indices (255,511,0,256)"
    //@ obligation C20 C20.recursive_update_flags_2mib.uses_recursive_addresses_of_the_page bounded="pool of 7 tables (4 path + 3 allocatable); tree-shaped sparse pre-state (target path, one neighbour word per path table, garbage in allocatable frames); recursive index 300; page-table indices (255,511,0,256)"
    #[kani::proof]
    #[kani::stub(crate::structures::paging::page_table::PageTable::zero, zero_stub)]
    #[kani::stub(crate::addr::VirtAddr::as_mut_ptr, mmu_trap_as_mut_ptr)]
    fn c01_recursive_update_flags_2mib_p3_huge_mid() {
        rec_update_flags_step!(Size2MiB, "2mib", "p3_huge", P3_HUGE, IDX_MID);
        kani::cover!(true, "c01_recursive_update_flags_2mib_p3_huge_mid: reachable");
    }

    //@ obligation C02 C02.recursive_update_flags_2mib.shape_p3_huge.huge_parent_is_reported_not_walked tier=thorough bounded="pool of 7 tables (4 path + 3 allocatable); tree-shaped sparse pre-state (target path, one neighbour word per path table, garbage in allocatable frames); recursive index 300; page-table indices (256,0,510,511)"
    //@ obligation C02 C02.recursive_update_flags_2mib.shape_p3_huge.documented_outcome tier=thorough bounded="pool of 7 tables (4 path + 3 allocatable); tree-shaped sparse pre-state (target path, one neighbour word per path table, garbage in allocatable frames); recursive index 300; page-table indices (256,0,510,511)"
    //@ obligation C02 C02.recursive_update_flags_2mib.shape_p3_huge.error_leaves_every_mapping tier=thorough bounded="pool of 7 tables (4 path + 3 allocatable); tree-shaped sparse pre-state (target path, one neighbour word per path table, garbage in allocatable frames); recursive index 300; page-table indices (256,0,510,511)"
    //@ obligation C09 C09.recursive_update_flags_2mib.shape_p3_huge.only_dictated_slots_change tier=thorough bounded="pool of 7 tables (4 path + 3 allocatable); tree-shaped sparse pre-state (target path, one neighbour word per path table, garbage in allocatable frames); recursive index 300; page-table indices (256,0,510,511)"
    //@ obligation C09 C09.recursive_update_flags_2mib.shape_p3_huge.no_frames_requested_or_zeroed tier=thorough bounded="pool of 7 tables (4 path + 3 allocatable); tree-shaped sparse pre-state (target path, one neighbour word per path table, garbage in allocatable frames); recursive index 300; page-table indices (256,0,510,511)"
    //@ obligation C09 C09.recursive_update_flags_2mib.shape_p3_huge.no_dangling_table_pointer tier=thorough bounded="pool of 7 tables (4 path + 3 allocatable); tree-shaped sparse pre-state (target path, one neighbour word per path table, garbage in allocatable frames); recursive index 300; page-table indices (256,0,510,511)"
    //@ obligation C09 C09.recursive_update_flags_2mib.shape_p3_huge.no_access_outside_page_tables tier=thorough bounded="pool of 7 tables (4 path + 3 allocatable); tree-shaped sparse pre-state (target path, one neighbour word per path table, garbage in allocatable frames); recursive index 300; page-table indices (256,0,510,511)"
    //@ obligation C20 C20.recursive_update_flags_2mib.uses_recursive_addresses_of_the_page tier=thorough bounded="pool of 7 tables (4 path + 3 allocatable); tree-shaped sparse pre-state (target path, one neighbour word per path table, garbage in allocatable frames); recursive index 300; page-table indices (256,0,510,511)"
    #[kani::proof]
    #[kani::stub(crate::structures::paging::page_table::PageTable::zero, zero_stub)]
    #[kani::stub(crate::addr::VirtAddr::as_mut_ptr, mmu_trap_as_mut_ptr)]
    fn c01_recursive_update_flags_2mib_p3_huge_up() {
        rec_update_flags_step!(Size2MiB, "2mib", "p3_huge", P3_HUGE, IDX_UP);
        kani::cover!(true, "c01_recursive_update_flags_2mib_p3_huge_up: reachable");
    }

    //@ obligation C02 C02.recursive_update_flags_2mib.shape_p2_absent.documented_outcome bounded="pool of 7 tables (4 path + 3 allocatable); tree-shaped sparse pre-state (target path, one neighbour word per path table, garbage in allocatable frames); recursive index 300; page-table indices (255,511,0,256)"
    //@ obligation C02 C02.recursive_update_flags_2mib.shape_p2_absent.error_leaves_every_mapping bounded="pool of 7 tables (4 path + 3 allocatable); tree-shaped sparse pre-state (target path, one neighbour word per path table, garbage in allocatable frames); recursive index 300; page-table indices (255,511,0,256)"
    //@ obligation C09 C09.recursive_update_flags_2mib.shape_p2_absent.only_dictated_slots_change bounded="pool of 7 tables (4 path + 3 allocatable); tree-shaped sparse pre-state (target path, one neighbour word per path table, garbage in allocatable frames); recursive index 300; page-table indices (255,511,0,256)"
    //@ obligation C09 C09.recursive_update_flags_2mib.shape_p2_absent.no_frames_requested_or_zeroed bounded="pool of 7 tables (4 path + 3 allocatable); tree-shaped sparse pre-state (target path, one neighbour word per path table, garbage in allocatable frames); recursive index 300; page-table indices (255,511,0,256)"
    //@ obligation C09 C09.recursive_update_flags_2mib.shape_p2_absent.no_dangling_table_pointer bounded="pool of 7 tables (4 path + 3 allocatable); tree-shaped sparse pre-state (target path, one neighbour word per path table, garbage in allocatable frames); recursive index 300; page-table indices (255,511,0,256)"
    //@ obligation C09 C09.recursive_update_flags_2mib.shape_p2_absent.no_access_outside_page_tables bounded="pool of 7 tables (4 path + 3 allocatable); tree-shaped sparse pre-state (target path, one neighbour word per path table, garbage in allocatable frames); recursive index 300; page-table indices (255,511,0,256)"
    //@ obligation C20 C20.recursive_update_flags_2mib.uses_recursive_addresses_of_the_page bounded="pool of 7 tables (4 path + 3 allocatable); tree-shaped sparse pre-state (target path, one neighbour word per path table, garbage in allocatable frames); recursive index 300; page-table indices (255,511,0,256)"
    #[kani::proof]
    #[kani::stub(crate::structures::paging::page_table::PageTable::zero, zero_stub)]
    #[kani::stub(crate::addr::VirtAddr::as_mut_ptr, mmu_trap_as_mut_ptr)]
    fn c01_recursive_update_flags_2mib_p2_absent_mid() {
        rec_update_flags_step!(Size2MiB, "2mib", "p2_absent", P2_ABSENT, IDX_MID);
        kani::cover!(true, "c01_recursive_update_flags_2mib_p2_absent_mid: reachable");
    }

    //@ obligation C02 C02.recursive_update_flags_2mib.shape_p2_absent.documented_outcome tier=thorough bounded="pool of 7 tables (4 path + 3 allocatable); tree-shaped sparse pre-state (target path, one neighbour word per path table, garbage in allocatable frames); recursive index 300; page-table indices (256,0,510,511)"
    //@ obligation C02 C02.recursive_update_flags_2mib.shape_p2_absent.error_leaves_every_mapping tier=thorough bounded="pool of 7 tables (4 path + 3 allocatable); tree-shaped sparse pre-state (target path, one neighbour word per path table, garbage in allocatable frames); recursive index 300; page-table indices (256,0,510,511)"
    //@ obligation C09 C09.recursive_update_flags_2mib.shape_p2_absent.only_dictated_slots_change tier=thorough bounded="pool of 7 tables (4 path + 3 allocatable); tree-shaped sparse pre-state (target path, one neighbour word per path table, garbage in allocatable frames); recursive index 300; page-table indices (256,0,510,511)"
    //@ obligation C09 C09.recursive_update_flags_2mib.shape_p2_absent.no_frames_requested_or_zeroed tier=thorough bounded="pool of 7 tables (4 path + 3 allocatable); tree-shaped sparse pre-state (target path, one neighbour word per path table, garbage in allocatable frames); recursive index 300; page-table indices (256,0,510,511)"
    //@ obligation C09 C09.recursive_update_flags_2mib.shape_p2_absent.no_dangling_table_pointer tier=thorough bounded="pool of 7 tables (4 path + 3 allocatable); tree-shaped sparse pre-state (target path, one neighbour word per path table, garbage in allocatable frames); recursive index 300; page-table indices (256,0,510,511)"
    //@ obligation C09 C09.recursive_update_flags_2mib.shape_p2_absent.no_access_outside_page_tables tier=thorough bounded="pool of 7 tables (4 path + 3 allocatable); tree-shaped sparse pre-state (target path, one neighbour word per path table, garbage in allocatable frames); recursive index 300; page-table indices (256,0,510,511)"
    //@ obligation C20 C20.recursive_update_flags_2mib.uses_recursive_addresses_of_the_page tier=thorough bounded="pool of 7 tables (4 path + 3 allocatable); tree-shaped sparse pre-state (target path, one neighbour word per path table, garbage in allocatable frames); recursive index 300; page-table indices (256,0,510,511)"
    #[kani::proof]
    #[kani::stub(crate::structures::paging::page_table::PageTable::zero, zero_stub)]
    #[kani::stub(crate::addr::VirtAddr::as_mut_ptr, mmu_trap_as_mut_ptr)]
    fn c01_recursive_update_flags_2mib_p2_absent_up() {
        rec_update_flags_step!(Size2MiB, "2mib", "p2_absent", P2_ABSENT, IDX_UP);
        kani::cover!(true, "c01_recursive_update_flags_2mib_p2_absent_up: reachable");
    }

    //@ obligation C02 C02.recursive_update_flags_2mib.shape_p2_huge.documented_outcome bounded="pool of 7 tables (4 path + 3 allocatable); tree-shaped sparse pre-state (target path, one neighbour word per path table, garbage in allocatable frames); recursive index 300; page-table indices (255,511,0,256)"
    //@ obligation C01 C01.recursive_update_flags_2mib.shape_p2_huge.target_keeps_frame_and_size bounded="pool of 7 tables (4 path + 3 allocatable); tree-shaped sparse pre-state (target path, one neighbour word per path table, garbage in allocatable frames); recursive index 300; page-table indices (255,511,0,256)"
    //@ obligation C11 C11.recursive_update_flags_2mib.shape_p2_huge.target_keeps_frame_and_size bounded="pool of 7 tables (4 path + 3 allocatable); tree-shaped sparse pre-state (target path, one neighbour word per path table, garbage in allocatable frames); recursive index 300; page-table indices (255,511,0,256)"
    //@ obligation C01 C01.recursive_update_flags_2mib.shape_p2_huge.target_leaf_flags_replaced bounded="pool of 7 tables (4 path + 3 allocatable); tree-shaped sparse pre-state (target path, one neighbour word per path table, garbage in allocatable frames); recursive index 300; page-table indices (255,511,0,256)"
    //@ obligation C11 C11.recursive_update_flags_2mib.shape_p2_huge.target_leaf_flags_replaced bounded="pool of 7 tables (4 path + 3 allocatable); tree-shaped sparse pre-state (target path, one neighbour word per path table, garbage in allocatable frames); recursive index 300; page-table indices (255,511,0,256)"
    //@ obligation C01 C01.recursive_update_flags_2mib.shape_p2_huge.other_addresses_unchanged bounded="pool of 7 tables (4 path + 3 allocatable); tree-shaped sparse pre-state (target path, one neighbour word per path table, garbage in allocatable frames); recursive index 300; page-table indices (255,511,0,256)"
    //@ obligation C11 C11.recursive_update_flags_2mib.shape_p2_huge.other_addresses_unchanged bounded="pool of 7 tables (4 path + 3 allocatable); tree-shaped sparse pre-state (target path, one neighbour word per path table, garbage in allocatable frames); recursive index 300; page-table indices (255,511,0,256)"
    //@ obligation C01 C01.recursive_update_flags_2mib.shape_p2_huge.result_reports_page bounded="pool of 7 tables (4 path + 3 allocatable); tree-shaped sparse pre-state (target path, one neighbour word per path table, garbage in allocatable frames); recursive index 300; page-table indices (255,511,0,256)"
    //@ obligation C11 C11.recursive_update_flags_2mib.shape_p2_huge.token_names_page bounded="pool of 7 tables (4 path + 3 allocatable); tree-shaped sparse pre-state (target path, one neighbour word per path table, garbage in allocatable frames); recursive index 300; page-table indices (255,511,0,256)"
    //@ obligation C09 C09.recursive_update_flags_2mib.shape_p2_huge.only_dictated_slots_change bounded="pool of 7 tables (4 path + 3 allocatable); tree-shaped sparse pre-state (target path, one neighbour word per path table, garbage in allocatable frames); recursive index 300; page-table indices (255,511,0,256)"
    //@ obligation C09 C09.recursive_update_flags_2mib.shape_p2_huge.no_frames_requested_or_zeroed bounded="pool of 7 tables (4 path + 3 allocatable); tree-shaped sparse pre-state (target path, one neighbour word per path table, garbage in allocatable frames); recursive index 300; page-table indices (255,511,0,256)"
    //@ obligation C09 C09.recursive_update_flags_2mib.shape_p2_huge.no_dangling_table_pointer bounded="pool of 7 tables (4 path + 3 allocatable); tree-shaped sparse pre-state (target path, one neighbour word per path table, garbage in allocatable frames); recursive index 300; page-table indices (255,511,0,256)"
    //@ obligation C09 C09.recursive_update_flags_2mib.shape_p2_huge.no_access_outside_page_tables bounded="pool of 7 tables (4 path + 3 allocatable); tree-shaped sparse pre-state (target path, one neighbour word per path table, garbage in allocatable frames); recursive index 300; page-table indices (255,511,0,256)"
    //@ obligation C20 C20.recursive_update_flags_2mib.uses_recursive_addresses_of_the_page bounded="pool of 7 tables (4 path + 3 allocatable); tree-shaped sparse pre-state (target path, one neighbour word per path table, garbage in allocatable frames); recursive index 300; page-table indices (255,511,0,256)"
    #[kani::proof]
    #[kani::stub(crate::structures::paging::page_table::PageTable::zero, zero_stub)]
    #[kani::stub(crate::addr::VirtAddr::as_mut_ptr, mmu_trap_as_mut_ptr)]
    fn c01_recursive_update_flags_2mib_p2_huge_mid() {
        rec_update_flags_step!(Size2MiB, "2mib", "p2_huge", P2_HUGE, IDX_MID);
        kani::cover!(true, "c01_recursive_update_flags_2mib_p2_huge_mid: reachable");
    }

    //@ obligation C02 C02.recursive_update_flags_2mib.shape_p2_huge.documented_outcome tier=thorough bounded="pool of 7 tables (4 path + 3 allocatable); tree-shaped sparse pre-state (target path, one neighbour word per path table, garbage in allocatable frames); recursive index 300; page-table indices (256,0,510,511)"
    //@ obligation C01 C01.recursive_update_flags_2mib.shape_p2_huge.target_keeps_frame_and_size tier=thorough bounded="pool of 7 tables (4 path + 3 allocatable); tree-shaped sparse pre-state (target path, one neighbour word per path table, garbage in allocatable frames); recursive index 300; page-table indices (256,0,510,511)"
    //@ obligation C11 C11.recursive_update_flags_2mib.shape_p2_huge.target_keeps_frame_and_size tier=thorough bounded="pool of 7 tables (4 path + 3 allocatable); tree-shaped sparse pre-state (target path, one neighbour word per path table, garbage in allocatable frames); recursive index 300; page-table indices (256,0,510,511)"
    //@ obligation C01 C01.recursive_update_flags_2mib.shape_p2_huge.target_leaf_flags_replaced tier=thorough bounded="pool of 7 tables (4 path + 3 allocatable); tree-shaped sparse pre-state (target path, one neighbour word per path table, garbage in allocatable frames); recursive index 300; page-table indices (256,0,510,511)"
    //@ obligation C11 C11.recursive_update_flags_2mib.shape_p2_huge.target_leaf_flags_replaced tier=thorough bounded="pool of 7 tables (4 path + 3 allocatable); tree-shaped sparse pre-state (target path, one neighbour word per path table, garbage in allocatable frames); recursive index 300; page-table indices (256,0,510,511)"
    //@ obligation C01 C01.recursive_update_flags_2mib.shape_p2_huge.other_addresses_unchanged tier=thorough bounded="pool of 7 tables (4 path + 3 allocatable); tree-shaped sparse pre-state (target path, one neighbour word per path table, garbage in allocatable frames); recursive index 300; page-table indices (256,0,510,511)"
    //@ obligation C11 C11.recursive_update_flags_2mib.shape_p2_huge.other_addresses_unchanged tier=thorough bounded="pool of 7 tables (4 path + 3 allocatable); tree-shaped sparse pre-state (target path, one neighbour word per path table, garbage in allocatable frames); recursive index 300; page-table indices (256,0,510,511)"
    //@ obligation C01 C01.recursive_update_flags_2mib.shape_p2_huge.result_reports_page tier=thorough bounded="pool of 7 tables (4 path + 3 allocatable); tree-shaped sparse pre-state (target path, one neighbour word per path table, garbage in allocatable frames); recursive index 300; page-table indices (256,0,510,511)"
    //@ obligation C11 C11.recursive_update_flags_2mib.shape_p2_huge.token_names_page tier=thorough bounded="pool of 7 tables (4 path + 3 allocatable); tree-shaped sparse pre-state (target path, one neighbour word per path table, garbage in allocatable frames); recursive index 300; page-table indices (256,0,510,511)"
    //@ obligation C09 C09.recursive_update_flags_2mib.shape_p2_huge.only_dictated_slots_change tier=thorough bounded="pool of 7 tables (4 path + 3 allocatable); tree-shaped sparse pre-state (target path, one neighbour word per path table, garbage in allocatable frames); recursive index 300; page-table indices (256,0,510,511)"
    //@ obligation C09 C09.recursive_update_flags_2mib.shape_p2_huge.no_frames_requested_or_zeroed tier=thorough bounded="pool of 7 tables (4 path + 3 allocatable); tree-shaped sparse pre-state (target path, one neighbour word per path table, garbage in allocatable frames); recursive index 300; page-table indices (256,0,510,511)"
    //@ obligation C09 C09.recursive_update_flags_2mib.shape_p2_huge.no_dangling_table_pointer tier=thorough bounded="pool of 7 tables (4 path + 3 allocatable); tree-shaped sparse pre-state (target path, one neighbour word per path table, garbage in allocatable frames); recursive index 300; page-table indices (256,0,510,511)"
    //@ obligation C09 C09.recursive_update_flags_2mib.shape_p2_huge.no_access_outside_page_tables tier=thorough bounded="pool of 7 tables (4 path + 3 allocatable); tree-shaped sparse pre-state (target path, one neighbour word per path table, garbage in allocatable frames); recursive index 300; page-table indices (256,0,510,511)"
    //@ obligation C20 C20.recursive_update_flags_2mib.uses_recursive_addresses_of_the_page tier=thorough bounded="pool of 7 tables (4 path + 3 allocatable); tree-shaped sparse pre-state (target path, one neighbour word per path table, garbage in allocatable frames); recursive index 300; page-table indices (256,0,510,511)"
    #[kani::proof]
    #[kani::stub(crate::structures::paging::page_table::PageTable::zero, zero_stub)]
    #[kani::stub(crate::addr::VirtAddr::as_mut_ptr, mmu_trap_as_mut_ptr)]
    fn c01_recursive_update_flags_2mib_p2_huge_up() {
        rec_update_flags_step!(Size2MiB, "2mib", "p2_huge", P2_HUGE, IDX_UP);
        kani::cover!(true, "c01_recursive_update_flags_2mib_p2_huge_up: reachable");
    }

    //@ obligation C02 C02.recursive_update_flags_2mib.shape_table_entry.no_success_for_nonexistent_size bounded="pool of 7 tables (4 path + 3 allocatable); tree-shaped sparse pre-state (target path, one neighbour word per path table, garbage in allocatable frames); recursive index 300; page-table indices (255,511,0,256)"
    //@ obligation C02 C02.recursive_update_flags_2mib.shape_table_entry.documented_outcome bounded="pool of 7 tables (4 path + 3 allocatable); tree-shaped sparse pre-state (target path, one neighbour word per path table, garbage in allocatable frames); recursive index 300; page-table indices (255,511,0,256)"
    //@ obligation C02 C02.recursive_update_flags_2mib.shape_table_entry.error_leaves_every_mapping bounded="pool of 7 tables (4 path + 3 allocatable); tree-shaped sparse pre-state (target path, one neighbour word per path table, garbage in allocatable frames); recursive index 300; page-table indices (255,511,0,256)"
    //@ obligation C09 C09.recursive_update_flags_2mib.shape_table_entry.only_dictated_slots_change bounded="pool of 7 tables (4 path + 3 allocatable); tree-shaped sparse pre-state (target path, one neighbour word per path table, garbage in allocatable frames); recursive index 300; page-table indices (255,511,0,256)"
    //@ obligation C09 C09.recursive_update_flags_2mib.shape_table_entry.no_frames_requested_or_zeroed bounded="pool of 7 tables (4 path + 3 allocatable); tree-shaped sparse pre-state (target path, one neighbour word per path table, garbage in allocatable frames); recursive index 300; page-table indices (255,511,0,256)"
    //@ obligation C09 C09.recursive_update_flags_2mib.shape_table_entry.no_dangling_table_pointer bounded="pool of 7 tables (4 path + 3 allocatable); tree-shaped sparse pre-state (target path, one neighbour word per path table, garbage in allocatable frames); recursive index 300; page-table indices (255,511,0,256)"
    //@ obligation C09 C09.recursive_update_flags_2mib.shape_table_entry.no_access_outside_page_tables bounded="pool of 7 tables (4 path + 3 allocatable); tree-shaped sparse pre-state (target path, one neighbour word per path table, garbage in allocatable frames); recursive index 300; page-table indices (255,511,0,256)"
    //@ obligation C20 C20.recursive_update_flags_2mib.uses_recursive_addresses_of_the_page bounded="pool of 7 tables (4 path + 3 allocatable); tree-shaped sparse pre-state (target path, one neighbour word per path table, garbage in allocatable frames); recursive index 300; page-table indices (255,511,0,256)"
    #[kani::proof]
    #[kani::stub(crate::structures::paging::page_table::PageTable::zero, zero_stub)]
    #[kani::stub(crate::addr::VirtAddr::as_mut_ptr, mmu_trap_as_mut_ptr)]
    fn c01_recursive_update_flags_2mib_table_entry_mid() {
        rec_update_flags_step!(Size2MiB, "2mib", "table_entry", P2_TABLE, IDX_MID);
        kani::cover!(true, "c01_recursive_update_flags_2mib_table_entry_mid: reachable");
    }

    //@ obligation C02 C02.recursive_update_flags_2mib.shape_table_entry.no_success_for_nonexistent_size tier=thorough bounded="pool of 7 tables (4 path + 3 allocatable); tree-shaped sparse pre-state (target path, one neighbour word per path table, garbage in allocatable frames); recursive index 300; page-table indices (256,0,510,511)"
    //@ obligation C02 C02.recursive_update_flags_2mib.shape_table_entry.documented_outcome tier=thorough bounded="pool of 7 tables (4 path + 3 allocatable); tree-shaped sparse pre-state (target path, one neighbour word per path table, garbage in allocatable frames); recursive index 300; page-table indices (256,0,510,511)"
    //@ obligation C02 C02.recursive_update_flags_2mib.shape_table_entry.error_leaves_every_mapping tier=thorough bounded="pool of 7 tables (4 path + 3 allocatable); tree-shaped sparse pre-state (target path, one neighbour word per path table, garbage in allocatable frames); recursive index 300; page-table indices (256,0,510,511)"
    //@ obligation C09 C09.recursive_update_flags_2mib.shape_table_entry.only_dictated_slots_change tier=thorough bounded="pool of 7 tables (4 path + 3 allocatable); tree-shaped sparse pre-state (target path, one neighbour word per path table, garbage in allocatable frames); recursive index 300; page-table indices (256,0,510,511)"
    //@ obligation C09 C09.recursive_update_flags_2mib.shape_table_entry.no_frames_requested_or_zeroed tier=thorough bounded="pool of 7 tables (4 path + 3 allocatable); tree-shaped sparse pre-state (target path, one neighbour word per path table, garbage in allocatable frames); recursive index 300; page-table indices (256,0,510,511)"
    //@ obligation C09 C09.recursive_update_flags_2mib.shape_table_entry.no_dangling_table_pointer tier=thorough bounded="pool of 7 tables (4 path + 3 allocatable); tree-shaped sparse pre-state (target path, one neighbour word per path table, garbage in allocatable frames); recursive index 300; page-table indices (256,0,510,511)"
    //@ obligation C09 C09.recursive_update_flags_2mib.shape_table_entry.no_access_outside_page_tables tier=thorough bounded="pool of 7 tables (4 path + 3 allocatable); tree-shaped sparse pre-state (target path, one neighbour word per path table, garbage in allocatable frames); recursive index 300; page-table indices (256,0,510,511)"
    //@ obligation C20 C20.recursive_update_flags_2mib.uses_recursive_addresses_of_the_page tier=thorough bounded="pool of 7 tables (4 path + 3 allocatable); tree-shaped sparse pre-state (target path, one neighbour word per path table, garbage in allocatable frames); recursive index 300; page-table indices (256,0,510,511)"
    #[kani::proof]
    #[kani::stub(crate::structures::paging::page_table::PageTable::zero, zero_stub)]
    #[kani::stub(crate::addr::VirtAddr::as_mut_ptr, mmu_trap_as_mut_ptr)]
    fn c01_recursive_update_flags_2mib_table_entry_up() {
        rec_update_flags_step!(Size2MiB, "2mib", "table_entry", P2_TABLE, IDX_UP);
        kani::cover!(true, "c01_recursive_update_flags_2mib_table_entry_up: reachable");
    }

    //@ obligation C02 C02.recursive_update_flags_2mib.shape_sym.documented_outcome tier=thorough bounded="pool of 7 tables (4 path + 3 allocatable); tree-shaped sparse pre-state (target path, one neighbour word per path table, garbage in allocatable frames); recursive index 300; page-table indices (255,511,0,256)"
    //@ obligation C01 C01.recursive_update_flags_2mib.shape_sym.target_keeps_frame_and_size tier=thorough bounded="pool of 7 tables (4 path + 3 allocatable); tree-shaped sparse pre-state (target path, one neighbour word per path table, garbage in allocatable frames); recursive index 300; page-table indices (255,511,0,256)"
    //@ obligation C11 C11.recursive_update_flags_2mib.shape_sym.target_keeps_frame_and_size tier=thorough bounded="pool of 7 tables (4 path + 3 allocatable); tree-shaped sparse pre-state (target path, one neighbour word per path table, garbage in allocatable frames); recursive index 300; page-table indices (255,511,0,256)"
    //@ obligation C01 C01.recursive_update_flags_2mib.shape_sym.target_leaf_flags_replaced tier=thorough bounded="pool of 7 tables (4 path + 3 allocatable); tree-shaped sparse pre-state (target path, one neighbour word per path table, garbage in allocatable frames); recursive index 300; page-table indices (255,511,0,256)"
    //@ obligation C11 C11.recursive_update_flags_2mib.shape_sym.target_leaf_flags_replaced tier=thorough bounded="pool of 7 tables (4 path + 3 allocatable); tree-shaped sparse pre-state (target path, one neighbour word per path table, garbage in allocatable frames); recursive index 300; page-table indices (255,511,0,256)"
    //@ obligation C01 C01.recursive_update_flags_2mib.shape_sym.other_addresses_unchanged tier=thorough bounded="pool of 7 tables (4 path + 3 allocatable); tree-shaped sparse pre-state (target path, one neighbour word per path table, garbage in allocatable frames); recursive index 300; page-table indices (255,511,0,256)"
    //@ obligation C11 C11.recursive_update_flags_2mib.shape_sym.other_addresses_unchanged tier=thorough bounded="pool of 7 tables (4 path + 3 allocatable); tree-shaped sparse pre-state (target path, one neighbour word per path table, garbage in allocatable frames); recursive index 300; page-table indices (255,511,0,256)"
    //@ obligation C01 C01.recursive_update_flags_2mib.shape_sym.result_reports_page tier=thorough bounded="pool of 7 tables (4 path + 3 allocatable); tree-shaped sparse pre-state (target path, one neighbour word per path table, garbage in allocatable frames); recursive index 300; page-table indices (255,511,0,256)"
    //@ obligation C11 C11.recursive_update_flags_2mib.shape_sym.token_names_page tier=thorough bounded="pool of 7 tables (4 path + 3 allocatable); tree-shaped sparse pre-state (target path, one neighbour word per path table, garbage in allocatable frames); recursive index 300; page-table indices (255,511,0,256)"
    //@ obligation C02 C02.recursive_update_flags_2mib.shape_sym.error_leaves_every_mapping tier=thorough bounded="pool of 7 tables (4 path + 3 allocatable); tree-shaped sparse pre-state (target path, one neighbour word per path table, garbage in allocatable frames); recursive index 300; page-table indices (255,511,0,256)"
    //@ obligation C09 C09.recursive_update_flags_2mib.shape_sym.only_dictated_slots_change tier=thorough bounded="pool of 7 tables (4 path + 3 allocatable); tree-shaped sparse pre-state (target path, one neighbour word per path table, garbage in allocatable frames); recursive index 300; page-table indices (255,511,0,256)"
    //@ obligation C09 C09.recursive_update_flags_2mib.shape_sym.no_frames_requested_or_zeroed tier=thorough bounded="pool of 7 tables (4 path + 3 allocatable); tree-shaped sparse pre-state (target path, one neighbour word per path table, garbage in allocatable frames); recursive index 300; page-table indices (255,511,0,256)"
    //@ obligation C09 C09.recursive_update_flags_2mib.shape_sym.no_dangling_table_pointer tier=thorough bounded="pool of 7 tables (4 path + 3 allocatable); tree-shaped sparse pre-state (target path, one neighbour word per path table, garbage in allocatable frames); recursive index 300; page-table indices (255,511,0,256)"
    //@ obligation C09 C09.recursive_update_flags_2mib.shape_sym.no_access_outside_page_tables tier=thorough bounded="pool of 7 tables (4 path + 3 allocatable); tree-shaped sparse pre-state (target path, one neighbour word per path table, garbage in allocatable frames); recursive index 300; page-table indices (255,511,0,256)"
    //@ obligation C20 C20.recursive_update_flags_2mib.uses_recursive_addresses_of_the_page tier=thorough bounded="pool of 7 tables (4 path + 3 allocatable); tree-shaped sparse pre-state (target path, one neighbour word per path table, garbage in allocatable frames); recursive index 300; page-table indices (255,511,0,256)"
    #[kani::proof]
    #[kani::stub(crate::structures::paging::page_table::PageTable::zero, zero_stub)]
    #[kani::stub(crate::addr::VirtAddr::as_mut_ptr, mmu_trap_as_mut_ptr)]
    fn c01_recursive_update_flags_2mib_sym_mid() {
        rec_update_flags_step!(Size2MiB, "2mib", "sym", P2_SYM, IDX_MID);
        kani::cover!(true, "c01_recursive_update_flags_2mib_sym_mid: reachable");
    }

    //@ obligation C02 C02.recursive_update_flags_2mib.shape_sym.documented_outcome bounded="pool of 7 tables (4 path + 3 allocatable); tree-shaped sparse pre-state (target path, one neighbour word per path table, garbage in allocatable frames); recursive index 300; page-table indices (256,0,510,511)"
    //@ obligation C01 C01.recursive_update_flags_2mib.shape_sym.target_keeps_frame_and_size bounded="pool of 7 tables (4 path + 3 allocatable); tree-shaped sparse pre-state (target path, one neighbour word per path table, garbage in allocatable frames); recursive index 300; page-table indices (256,0,510,511)"
    //@ obligation C11 C11.recursive_update_flags_2mib.shape_sym.target_keeps_frame_and_size bounded="pool of 7 tables (4 path + 3 allocatable); tree-shaped sparse pre-state (target path, one neighbour word per path table, garbage in allocatable frames); recursive index 300; page-table indices (256,0,510,511)"
    //@ obligation C01 C01.recursive_update_flags_2mib.shape_sym.target_leaf_flags_replaced bounded="pool of 7 tables (4 path + 3 allocatable); tree-shaped sparse pre-state (target path, one neighbour word per path table, garbage in allocatable frames); recursive index 300; page-table indices (256,0,510,511)"
    //@ obligation C11 C11.recursive_update_flags_2mib.shape_sym.target_leaf_flags_replaced bounded="pool of 7 tables (4 path + 3 allocatable); tree-shaped sparse pre-state (target path, one neighbour word per path table, garbage in allocatable frames); recursive index 300; page-table indices (256,0,510,511)"
    //@ obligation C01 C01.recursive_update_flags_2mib.shape_sym.other_addresses_unchanged bounded="pool of 7 tables (4 path + 3 allocatable); tree-shaped sparse pre-state (target path, one neighbour word per path table, garbage in allocatable frames); recursive index 300; page-table indices (256,0,510,511)"
    //@ obligation C11 C11.recursive_update_flags_2mib.shape_sym.other_addresses_unchanged bounded="pool of 7 tables (4 path + 3 allocatable); tree-shaped sparse pre-state (target path, one neighbour word per path table, garbage in allocatable frames); recursive index 300; page-table indices (256,0,510,511)"
    //@ obligation C01 C01.recursive_update_flags_2mib.shape_sym.result_reports_page bounded="pool of 7 tables (4 path + 3 allocatable); tree-shaped sparse pre-state (target path, one neighbour word per path table, garbage in allocatable frames); recursive index 300; page-table indices (256,0,510,511)"
    //@ obligation C11 C11.recursive_update_flags_2mib.shape_sym.token_names_page bounded="pool of 7 tables (4 path + 3 allocatable); tree-shaped sparse pre-state (target path, one neighbour word per path table, garbage in allocatable frames); recursive index 300; page-table indices (256,0,510,511)"
    //@ obligation C02 C02.recursive_update_flags_2mib.shape_sym.error_leaves_every_mapping bounded="pool of 7 tables (4 path + 3 allocatable); tree-shaped sparse pre-state (target path, one neighbour word per path table, garbage in allocatable frames); recursive index 300; page-table indices (256,0,510,511)"
    //@ obligation C09 C09.recursive_update_flags_2mib.shape_sym.only_dictated_slots_change bounded="pool of 7 tables (4 path + 3 allocatable); tree-shaped sparse pre-state (target path, one neighbour word per path table, garbage in allocatable frames); recursive index 300; page-table indices (256,0,510,511)"
    //@ obligation C09 C09.recursive_update_flags_2mib.shape_sym.no_frames_requested_or_zeroed bounded="pool of 7 tables (4 path + 3 allocatable); tree-shaped sparse pre-state (target path, one neighbour word per path table, garbage in allocatable frames); recursive index 300; page-table indices (256,0,510,511)"
    //@ obligation C09 C09.recursive_update_flags_2mib.shape_sym.no_dangling_table_pointer bounded="pool of 7 tables (4 path + 3 allocatable); tree-shaped sparse pre-state (target path, one neighbour word per path table, garbage in allocatable frames); recursive index 300; page-table indices (256,0,510,511)"
    //@ obligation C09 C09.recursive_update_flags_2mib.shape_sym.no_access_outside_page_tables bounded="pool of 7 tables (4 path + 3 allocatable); tree-shaped sparse pre-state (target path, one neighbour word per path table, garbage in allocatable frames); recursive index 300; page-table indices (256,0,510,511)"
    //@ obligation C20 C20.recursive_update_flags_2mib.uses_recursive_addresses_of_the_page bounded="pool of 7 tables (4 path + 3 allocatable); tree-shaped sparse pre-state (target path, one neighbour word per path table, garbage in allocatable frames); recursive index 300; page-table indices (256,0,510,511)"
    #[kani::proof]
    #[kani::stub(crate::structures::paging::page_table::PageTable::zero, zero_stub)]
    #[kani::stub(crate::addr::VirtAddr::as_mut_ptr, mmu_trap_as_mut_ptr)]
    fn c01_recursive_update_flags_2mib_sym_up() {
        rec_update_flags_step!(Size2MiB, "2mib", "sym", P2_SYM, IDX_UP);
        kani::cover!(true, "c01_recursive_update_flags_2mib_sym_up: reachable");
    }

    //@ obligation C02 C02.recursive_update_flags_1gib.shape_p4_absent.documented_outcome bounded="pool of 7 tables (4 path + 3 allocatable); tree-shaped sparse pre-state (target path, one neighbour word per path table, garbage in allocatable frames); recursive index 300; page-table indices (255,511,0,256)"
    //@ obligation C02 C02.recursive_update_flags_1gib.shape_p4_absent.error_leaves_every_mapping bounded="pool of 7 tables (4 path + 3 allocatable); tree-shaped sparse pre-state (target path, one neighbour word per path table, garbage in allocatable frames); recursive index 300; page-table indices (255,511,0,256)"
    //@ obligation C09 C09.recursive_update_flags_1gib.shape_p4_absent.only_dictated_slots_change bounded="pool of 7 tables (4 path + 3 allocatable); tree-shaped sparse pre-state (target path, one neighbour word per path table, garbage in allocatable frames); recursive index 300; page-table indices (255,511,0,256)"
    //@ obligation C09 C09.recursive_update_flags_1gib.shape_p4_absent.no_frames_requested_or_zeroed bounded="pool of 7 tables (4 path + 3 allocatable); tree-shaped sparse pre-state (target path, one neighbour word per path table, garbage in allocatable frames); recursive index 300; page-table indices (255,511,0,256)"
    //@ obligation C09 C09.recursive_update_flags_1gib.shape_p4_absent.no_dangling_table_pointer bounded="pool of 7 tables (4 path + 3 allocatable); tree-shaped sparse pre-state (target path, one neighbour word per path table, garbage in allocatable frames); recursive index 300; page-table indices (255,511,0,256)"
    //@ obligation C09 C09.recursive_update_flags_1gib.shape_p4_absent.no_access_outside_page_tables bounded="pool of 7 tables (4 path + 3 allocatable); tree-shaped sparse pre-state (target path, one neighbour word per path table, garbage in allocatable frames); recursive index 300; page-table indices (255,511,0,256)"
    #[kani::proof]
    #[kani::stub(crate::structures::paging::page_table::PageTable::zero, zero_stub)]
    #[kani::stub(crate::addr::VirtAddr::as_mut_ptr, mmu_trap_as_mut_ptr)]
    fn c01_recursive_update_flags_1gib_p4_absent_mid() {
        rec_update_flags_step!(Size1GiB, "1gib", "p4_absent", P4_ABSENT, IDX_MID);
        kani::cover!(true, "c01_recursive_update_flags_1gib_p4_absent_mid: reachable");
    }

    //@ obligation C02 C02.recursive_update_flags_1gib.shape_p4_absent.documented_outcome tier=thorough bounded="pool of 7 tables (4 path + 3 allocatable); tree-shaped sparse pre-state (target path, one neighbour word per path table, garbage in allocatable frames); recursive index 300; page-table indices (256,0,510,511)"
    //@ obligation C02 C02.recursive_update_flags_1gib.shape_p4_absent.error_leaves_every_mapping tier=thorough bounded="pool of 7 tables (4 path + 3 allocatable); tree-shaped sparse pre-state (target path, one neighbour word per path table, garbage in allocatable frames); recursive index 300; page-table indices (256,0,510,511)"
    //@ obligation C09 C09.recursive_update_flags_1gib.shape_p4_absent.only_dictated_slots_change tier=thorough bounded="pool of 7 tables (4 path + 3 allocatable); tree-shaped sparse pre-state (target path, one neighbour word per path table, garbage in allocatable frames); recursive index 300; page-table indices (256,0,510,511)"
    //@ obligation C09 C09.recursive_update_flags_1gib.shape_p4_absent.no_frames_requested_or_zeroed tier=thorough bounded="pool of 7 tables (4 path + 3 allocatable); tree-shaped sparse pre-state (target path, one neighbour word per path table, garbage in allocatable frames); recursive index 300; page-table indices (256,0,510,511)"
    //@ obligation C09 C09.recursive_update_flags_1gib.shape_p4_absent.no_dangling_table_pointer tier=thorough bounded="pool of 7 tables (4 path + 3 allocatable); tree-shaped sparse pre-state (target path, one neighbour word per path table, garbage in allocatable frames); recursive index 300; page-table indices (256,0,510,511)"
    //@ obligation C09 C09.recursive_update_flags_1gib.shape_p4_absent.no_access_outside_page_tables tier=thorough bounded="pool of 7 tables (4 path + 3 allocatable); tree-shaped sparse pre-state (target path, one neighbour word per path table, garbage in allocatable frames); recursive index 300; page-table indices (256,0,510,511)"
    #[kani::proof]
    #[kani::stub(crate::structures::paging::page_table::PageTable::zero, zero_stub)]
    #[kani::stub(crate::addr::VirtAddr::as_mut_ptr, mmu_trap_as_mut_ptr)]
    fn c01_recursive_update_flags_1gib_p4_absent_up() {
        rec_update_flags_step!(Size1GiB, "1gib", "p4_absent", P4_ABSENT, IDX_UP);
        kani::cover!(true, "c01_recursive_update_flags_1gib_p4_absent_up: reachable");
    }

    //@ obligation C02 C02.recursive_update_flags_1gib.shape_p3_absent.documented_outcome tier=thorough bounded="pool of 7 tables (4 path + 3 allocatable); tree-shaped sparse pre-state (target path, one neighbour word per path table, garbage in allocatable frames); recursive index 300; page-table indices (255,511,0,256)"
    //@ obligation C02 C02.recursive_update_flags_1gib.shape_p3_absent.error_leaves_every_mapping tier=thorough bounded="pool of 7 tables (4 path + 3 allocatable); tree-shaped sparse pre-state (target path, one neighbour word per path table, garbage in allocatable frames); recursive index 300; page-table indices (255,511,0,256)"
    //@ obligation C09 C09.recursive_update_flags_1gib.shape_p3_absent.only_dictated_slots_change tier=thorough bounded="pool of 7 tables (4 path + 3 allocatable); tree-shaped sparse pre-state (target path, one neighbour word per path table, garbage in allocatable frames); recursive index 300; page-table indices (255,511,0,256)"
    //@ obligation C09 C09.recursive_update_flags_1gib.shape_p3_absent.no_frames_requested_or_zeroed tier=thorough bounded="pool of 7 tables (4 path + 3 allocatable); tree-shaped sparse pre-state (target path, one neighbour word per path table, garbage in allocatable frames); recursive index 300; page-table indices (255,511,0,256)"
    //@ obligation C09 C09.recursive_update_flags_1gib.shape_p3_absent.no_dangling_table_pointer tier=thorough bounded="pool of 7 tables (4 path + 3 allocatable); tree-shaped sparse pre-state (target path, one neighbour word per path table, garbage in allocatable frames); recursive index 300; page-table indices (255,511,0,256)"
    //@ obligation C09 C09.recursive_update_flags_1gib.shape_p3_absent.no_access_outside_page_tables tier=thorough bounded="pool of 7 tables (4 path + 3 allocatable); tree-shaped sparse pre-state (target path, one neighbour word per path table, garbage in allocatable frames); recursive index 300; page-table indices (255,511,0,256)"
    //@ obligation C20 C20.recursive_update_flags_1gib.uses_recursive_addresses_of_the_page tier=thorough bounded="pool of 7 tables (4 path + 3 allocatable); tree-shaped sparse pre-state (target path, one neighbour word per path table, garbage in allocatable frames); recursive index 300; page-table indices (255,511,0,256)"
    #[kani::proof]
    #[kani::stub(crate::structures::paging::page_table::PageTable::zero, zero_stub)]
    #[kani::stub(crate::addr::VirtAddr::as_mut_ptr, mmu_trap_as_mut_ptr)]
    fn c01_recursive_update_flags_1gib_p3_absent_mid() {
        rec_update_flags_step!(Size1GiB, "1gib", "p3_absent", P3_ABSENT, IDX_MID);
        kani::cover!(true, "c01_recursive_update_flags_1gib_p3_absent_mid: reachable");
    }

    //@ obligation C02 C02.recursive_update_flags_1gib.shape_p3_absent.documented_outcome bounded="pool of 7 tables (4 path + 3 allocatable); tree-shaped sparse pre-state (target path, one neighbour word per path table, garbage in allocatable frames); recursive index 300; page-table indices (256,0,510,511)"
    //@ obligation C02 C02.recursive_update_flags_1gib.shape_p3_absent.error_leaves_every_mapping bounded="pool of 7 tables (4 path + 3 allocatable); tree-shaped sparse pre-state (target path, one neighbour word per path table, garbage in allocatable frames); recursive index 300; page-table indices (256,0,510,511)"
    //@ obligation C09 C09.recursive_update_flags_1gib.shape_p3_absent.only_dictated_slots_change bounded="pool of 7 tables (4 path + 3 allocatable); tree-shaped sparse pre-state (target path, one neighbour word per path table, garbage in allocatable frames); recursive index 300; page-table indices (256,0,510,511)"
    //@ obligation C09 C09.recursive_update_flags_1gib.shape_p3_absent.no_frames_requested_or_zeroed bounded="pool of 7 tables (4 path + 3 allocatable); tree-shaped sparse pre-state (target path, one neighbour word per path table, garbage in allocatable frames); recursive index 300; page-table indices (256,0,510,511)"
    //@ obligation C09 C09.recursive_update_flags_1gib.shape_p3_absent.no_dangling_table_pointer bounded="pool of 7 tables (4 path + 3 allocatable); tree-shaped sparse pre-state (target path, one neighbour word per path table, garbage in allocatable frames); recursive index 300; page-table indices (256,0,510,511)"
    //@ obligation C09 C09.recursive_update_flags_1gib.shape_p3_absent.no_access_outside_page_tables bounded="pool of 7 tables (4 path + 3 allocatable); tree-shaped sparse pre-state (target path, one neighbour word per path table, garbage in allocatable frames); recursive index 300; page-table indices (256,0,510,511)"
    //@ obligation C20 C20.recursive_update_flags_1gib.uses_recursive_addresses_of_the_page bounded="pool of 7 tables (4 path + 3 allocatable); tree-shaped sparse pre-state (target path, one neighbour word per path table, garbage in allocatable frames); recursive index 300; page-table indices (256,0,510,511)"
    #[kani::proof]
    #[kani::stub(crate::structures::paging::page_table::PageTable::zero, zero_stub)]
    #[kani::stub(crate::addr::VirtAddr::as_mut_ptr, mmu_trap_as_mut_ptr)]
    fn c01_recursive_update_flags_1gib_p3_absent_up() {
        rec_update_flags_step!(Size1GiB, "1gib", "p3_absent", P3_ABSENT, IDX_UP);
        kani::cover!(true, "c01_recursive_update_flags_1gib_p3_absent_up: reachable");
    }

    //@ obligation C02 C02.recursive_update_flags_1gib.shape_p3_huge.documented_outcome bounded="pool of 7 tables (4 path + 3 allocatable); tree-shaped sparse pre-state (target path, one neighbour word per path table, garbage in allocatable frames); recursive index 300; page-table indices (255,511,0,256)"
    //@ obligation C01 C01.recursive_update_flags_1gib.shape_p3_huge.target_keeps_frame_and_size bounded="pool of 7 tables (4 path + 3 allocatable); tree-shaped sparse pre-state (target path, one neighbour word per path table, garbage in allocatable frames); recursive index 300; page-table indices (255,511,0,256)"
    //@ obligation C11 C11.recursive_update_flags_1gib.shape_p3_huge.target_keeps_frame_and_size bounded="pool of 7 tables (4 path + 3 allocatable); tree-shaped sparse pre-state (target path, one neighbour word per path table, garbage in allocatable frames); recursive index 300; page-table indices (255,511,0,256)"
    //@ obligation C01 C01.recursive_update_flags_1gib.shape_p3_huge.target_leaf_flags_replaced bounded="pool of 7 tables (4 path + 3 allocatable); tree-shaped sparse pre-state (target path, one neighbour word per path table, garbage in allocatable frames); recursive index 300; page-table indices (255,511,0,256)"
    //@ obligation C11 C11.recursive_update_flags_1gib.shape_p3_huge.target_leaf_flags_replaced bounded="pool of 7 tables (4 path + 3 allocatable); tree-shaped sparse pre-state (target path, one neighbour word per path table, garbage in allocatable frames); recursive index 300; page-table indices (255,511,0,256)"
    //@ obligation C01 C01.recursive_update_flags_1gib.shape_p3_huge.other_addresses_unchanged bounded="pool of 7 tables (4 path + 3 allocatable); tree-shaped sparse pre-state (target path, one neighbour word per path table, garbage in allocatable frames); recursive index 300; page-table indices (255,511,0,256)"
    //@ obligation C11 C11.recursive_update_flags_1gib.shape_p3_huge.other_addresses_unchanged bounded="pool of 7 tables (4 path + 3 allocatable); tree-shaped sparse pre-state (target path, one neighbour word per path table, garbage in allocatable frames); recursive index 300; page-table indices (255,511,0,256)"
    //@ obligation C01 C01.recursive_update_flags_1gib.shape_p3_huge.result_reports_page bounded="pool of 7 tables (4 path + 3 allocatable); tree-shaped sparse pre-state (target path, one neighbour word per path table, garbage in allocatable frames); recursive index 300; page-table indices (255,511,0,256)"
    //@ obligation C11 C11.recursive_update_flags_1gib.shape_p3_huge.token_names_page bounded="pool of 7 tables (4 path + 3 allocatable); tree-shaped sparse pre-state (target path, one neighbour word per path table, garbage in allocatable frames); recursive index 300; page-table indices (255,511,0,256)"
    //@ obligation C09 C09.recursive_update_flags_1gib.shape_p3_huge.only_dictated_slots_change bounded="pool of 7 tables (4 path + 3 allocatable); tree-shaped sparse pre-state (target path, one neighbour word per path table, garbage in allocatable frames); recursive index 300; page-table indices (255,511,0,256)"
    //@ obligation C09 C09.recursive_update_flags_1gib.shape_p3_huge.no_frames_requested_or_zeroed bounded="pool of 7 tables (4 path + 3 allocatable); tree-shaped sparse pre-state (target path, one neighbour word per path table, garbage in allocatable frames); recursive index 300; page-table indices (255,511,0,256)"
    //@ obligation C09 C09.recursive_update_flags_1gib.shape_p3_huge.no_dangling_table_pointer bounded="pool of 7 tables (4 path + 3 allocatable); tree-shaped sparse pre-state (target path, one neighbour word per path table, garbage in allocatable frames); recursive index 300; page-table indices (255,511,0,256)"
    //@ obligation C09 C09.recursive_update_flags_1gib.shape_p3_huge.no_access_outside_page_tables bounded="pool of 7 tables (4 path + 3 allocatable); tree-shaped sparse pre-state (target path, one neighbour word per path table, garbage in allocatable frames); recursive index 300; page-table indices (255,511,0,256)"
    //@ obligation C20 C20.recursive_update_flags_1gib.uses_recursive_addresses_of_the_page bounded="pool of 7 tables (4 path + 3 allocatable); tree-shaped sparse pre-state (target path, one neighbour word per path table, garbage in allocatable frames); recursive index 300; page-table indices (255,511,0,256)"
    #[kani::proof]
    #[kani::stub(crate::structures::paging::page_table::PageTable::zero, zero_stub)]
    #[kani::stub(crate::addr::VirtAddr::as_mut_ptr, mmu_trap_as_mut_ptr)]
    fn c01_recursive_update_flags_1gib_p3_huge_mid() {
        rec_update_flags_step!(Size1GiB, "1gib", "p3_huge", P3_HUGE, IDX_MID);
        kani::cover!(true, "c01_recursive_update_flags_1gib_p3_huge_mid: reachable");
    }

    //@ obligation C02 C02.recursive_update_flags_1gib.shape_p3_huge.documented_outcome tier=thorough bounded="pool of 7 tables (4 path + 3 allocatable); tree-shaped sparse pre-state (target path, one neighbour word per path table, garbage in allocatable frames); recursive index 300; page-table indices (256,0,510,511)"
    //@ obligation C01 C01.recursive_update_flags_1gib.shape_p3_huge.target_keeps_frame_and_size tier=thorough bounded="pool of 7 tables (4 path + 3 allocatable); tree-shaped sparse pre-state (target path, one neighbour word per path table, garbage in allocatable frames); recursive index 300; page-table indices (256,0,510,511)"
    //@ obligation C11 C11.recursive_update_flags_1gib.shape_p3_huge.target_keeps_frame_and_size tier=thorough bounded="pool of 7 tables (4 path + 3 allocatable); tree-shaped sparse pre-state (target path, one neighbour word per path table, garbage in allocatable frames); recursive index 300; page-table indices (256,0,510,511)"
    //@ obligation C01 C01.recursive_update_flags_1gib.shape_p3_huge.target_leaf_flags_replaced tier=thorough bounded="pool of 7 tables (4 path + 3 allocatable); tree-shaped sparse pre-state (target path, one neighbour word per path table, garbage in allocatable frames); recursive index 300; page-table indices (256,0,510,511)"
    //@ obligation C11 C11.recursive_update_flags_1gib.shape_p3_huge.target_leaf_flags_replaced tier=thorough bounded="pool of 7 tables (4 path + 3 allocatable); tree-shaped sparse pre-state (target path, one neighbour word per path table, garbage in allocatable frames); recursive index 300; page-table indices (256,0,510,511)"
    //@ obligation C01 C01.recursive_update_flags_1gib.shape_p3_huge.other_addresses_unchanged tier=thorough bounded="pool of 7 tables (4 path + 3 allocatable); tree-shaped sparse pre-state (target path, one neighbour word per path table, garbage in allocatable frames); recursive index 300; page-table indices (256,0,510,511)"
    //@ obligation C11 C11.recursive_update_flags_1gib.shape_p3_huge.other_addresses_unchanged tier=thorough bounded="pool of 7 tables (4 path + 3 allocatable); tree-shaped sparse pre-state (target path, one neighbour word per path table, garbage in allocatable frames); recursive index 300; page-table indices (256,0,510,511)"
    //@ obligation C01 C01.recursive_update_flags_1gib.shape_p3_huge.result_reports_page tier=thorough bounded="pool of 7 tables (4 path + 3 allocatable); tree-shaped sparse pre-state (target path, one neighbour word per path table, garbage in allocatable frames); recursive index 300; page-table indices (256,0,510,511)"
    //@ obligation C11 C11.recursive_update_flags_1gib.shape_p3_huge.token_names_page tier=thorough bounded="pool of 7 tables (4 path + 3 allocatable); tree-shaped sparse pre-state (target path, one neighbour word per path table, garbage in allocatable frames); recursive index 300; page-table indices (256,0,510,511)"
    //@ obligation C09 C09.recursive_update_flags_1gib.shape_p3_huge.only_dictated_slots_change tier=thorough bounded="pool of 7 tables (4 path + 3 allocatable); tree-shaped sparse pre-state (target path, one neighbour word per path table, garbage in allocatable frames); recursive index 300; page-table indices (256,0,510,511)"
    //@ obligation C09 C09.recursive_update_flags_1gib.shape_p3_huge.no_frames_requested_or_zeroed tier=thorough bounded="pool of 7 tables (4 path + 3 allocatable); tree-shaped sparse pre-state (target path, one neighbour word per path table, garbage in allocatable frames); recursive index 300; page-table indices (256,0,510,511)"
    //@ obligation C09 C09.recursive_update_flags_1gib.shape_p3_huge.no_dangling_table_pointer tier=thorough bounded="pool of 7 tables (4 path + 3 allocatable); tree-shaped sparse pre-state (target path, one neighbour word per path table, garbage in allocatable frames); recursive index 300; page-table indices (256,0,510,511)"
    //@ obligation C09 C09.recursive_update_flags_1gib.shape_p3_huge.no_access_outside_page_tables tier=thorough bounded="pool of 7 tables (4 path + 3 allocatable); tree-shaped sparse pre-state (target path, one neighbour word per path table, garbage in allocatable frames); recursive index 300; page-table indices (256,0,510,511)"
    //@ obligation C20 C20.recursive_update_flags_1gib.uses_recursive_addresses_of_the_page tier=thorough bounded="pool of 7 tables (4 path + 3 allocatable); tree-shaped sparse pre-state (target path, one neighbour word per path table, garbage in allocatable frames); recursive index 300; page-table indices (256,0,510,511)"
    #[kani::proof]
    #[kani::stub(crate::structures::paging::page_table::PageTable::zero, zero_stub)]
    #[kani::stub(crate::addr::VirtAddr::as_mut_ptr, mmu_trap_as_mut_ptr)]
    fn c01_recursive_update_flags_1gib_p3_huge_up() {
        rec_update_flags_step!(Size1GiB, "1gib", "p3_huge", P3_HUGE, IDX_UP);
        kani::cover!(true, "c01_recursive_update_flags_1gib_p3_huge_up: reachable");
    }

    //@ obligation C02 C02.recursive_update_flags_1gib.shape_table_entry.no_success_for_nonexistent_size bounded="pool of 7 tables (4 path + 3 allocatable); tree-shaped sparse pre-state (target path, one neighbour word per path table, garbage in allocatable frames); recursive index 300; page-table indices (255,511,0,256)"
    //@ obligation C02 C02.recursive_update_flags_1gib.shape_table_entry.documented_outcome bounded="pool of 7 tables (4 path + 3 allocatable); tree-shaped sparse pre-state (target path, one neighbour word per path table, garbage in allocatable frames); recursive index 300; page-table indices (255,511,0,256)"
    //@ obligation C02 C02.recursive_update_flags_1gib.shape_table_entry.error_leaves_every_mapping bounded="pool of 7 tables (4 path + 3 allocatable); tree-shaped sparse pre-state (target path, one neighbour word per path table, garbage in allocatable frames); recursive index 300; page-table indices (255,511,0,256)"
    //@ obligation C09 C09.recursive_update_flags_1gib.shape_table_entry.only_dictated_slots_change bounded="pool of 7 tables (4 path + 3 allocatable); tree-shaped sparse pre-state (target path, one neighbour word per path table, garbage in allocatable frames); recursive index 300; page-table indices (255,511,0,256)"
    //@ obligation C09 C09.recursive_update_flags_1gib.shape_table_entry.no_frames_requested_or_zeroed bounded="pool of 7 tables (4 path + 3 allocatable); tree-shaped sparse pre-state (target path, one neighbour word per path table, garbage in allocatable frames); recursive index 300; page-table indices (255,511,0,256)"
    //@ obligation C09 C09.recursive_update_flags_1gib.shape_table_entry.no_dangling_table_pointer bounded="pool of 7 tables (4 path + 3 allocatable); tree-shaped sparse pre-state (target path, one neighbour word per path table, garbage in allocatable frames); recursive index 300; page-table indices (255,511,0,256)"
    //@ obligation C09 C09.recursive_update_flags_1gib.shape_table_entry.no_access_outside_page_tables bounded="pool of 7 tables (4 path + 3 allocatable); tree-shaped sparse pre-state (target path, one neighbour word per path table, garbage in allocatable frames); recursive index 300; page-table indices (255,511,0,256)"
    //@ obligation C20 C20.recursive_update_flags_1gib.uses_recursive_addresses_of_the_page bounded="pool of 7 tables (4 path + 3 allocatable); tree-shaped sparse pre-state (target path, one neighbour word per path table, garbage in allocatable frames); recursive index 300; page-table indices (255,511,0,256)"
    #[kani::proof]
    #[kani::stub(crate::structures::paging::page_table::PageTable::zero, zero_stub)]
    #[kani::stub(crate::addr::VirtAddr::as_mut_ptr, mmu_trap_as_mut_ptr)]
    fn c01_recursive_update_flags_1gib_table_entry_mid() {
        rec_update_flags_step!(Size1GiB, "1gib", "table_entry", P3_TABLE, IDX_MID);
        kani::cover!(true, "c01_recursive_update_flags_1gib_table_entry_mid: reachable");
    }

    //@ obligation C02 C02.recursive_update_flags_1gib.shape_table_entry.no_success_for_nonexistent_size tier=thorough bounded="pool of 7 tables (4 path + 3 allocatable); tree-shaped sparse pre-state (target path, one neighbour word per path table, garbage in allocatable frames); recursive index 300; page-table indices (256,0,510,511)"
    //@ obligation C02 C02.recursive_update_flags_1gib.shape_table_entry.documented_outcome tier=thorough bounded="pool of 7 tables (4 path + 3 allocatable); tree-shaped sparse pre-state (target path, one neighbour word per path table, garbage in allocatable frames); recursive index 300; page-table indices (256,0,510,511)"
    //@ obligation C02 C02.recursive_update_flags_1gib.shape_table_entry.error_leaves_every_mapping tier=thorough bounded="pool of 7 tables (4 path + 3 allocatable); tree-shaped sparse pre-state (target path, one neighbour word per path table, garbage in allocatable frames); recursive index 300; page-table indices (256,0,510,511)"
    //@ obligation C09 C09.recursive_update_flags_1gib.shape_table_entry.only_dictated_slots_change tier=thorough bounded="pool of 7 tables (4 path + 3 allocatable); tree-shaped sparse pre-state (target path, one neighbour word per path table, garbage in allocatable frames); recursive index 300; page-table indices (256,0,510,511)"
    //@ obligation C09 C09.recursive_update_flags_1gib.shape_table_entry.no_frames_requested_or_zeroed tier=thorough bounded="pool of 7 tables (4 path + 3 allocatable); tree-shaped sparse pre-state (target path, one neighbour word per path table, garbage in allocatable frames); recursive index 300; page-table indices (256,0,510,511)"
    //@ obligation C09 C09.recursive_update_flags_1gib.shape_table_entry.no_dangling_table_pointer tier=thorough bounded="pool of 7 tables (4 path + 3 allocatable); tree-shaped sparse pre-state (target path, one neighbour word per path table, garbage in allocatable frames); recursive index 300; page-table indices (256,0,510,511)"
    //@ obligation C09 C09.recursive_update_flags_1gib.shape_table_entry.no_access_outside_page_tables tier=thorough bounded="pool of 7 tables (4 path + 3 allocatable); tree-shaped sparse pre-state (target path, one neighbour word per path table, garbage in allocatable frames); recursive index 300; page-table indices (256,0,510,511)"
    //@ obligation C20 C20.recursive_update_flags_1gib.uses_recursive_addresses_of_the_page tier=thorough bounded="pool of 7 tables (4 path + 3 allocatable); tree-shaped sparse pre-state (target path, one neighbour word per path table, garbage in allocatable frames); recursive index 300; page-table indices (256,0,510,511)"
    #[kani::proof]
    #[kani::stub(crate::structures::paging::page_table::PageTable::zero, zero_stub)]
    #[kani::stub(crate::addr::VirtAddr::as_mut_ptr, mmu_trap_as_mut_ptr)]
    fn c01_recursive_update_flags_1gib_table_entry_up() {
        rec_update_flags_step!(Size1GiB, "1gib", "table_entry", P3_TABLE, IDX_UP);
        kani::cover!(true, "c01_recursive_update_flags_1gib_table_entry_up: reachable");
    }

    //@ obligation C02 C02.recursive_update_flags_1gib.shape_sym.documented_outcome tier=thorough bounded="pool of 7 tables (4 path + 3 allocatable); tree-shaped sparse pre-state (target path, one neighbour word per path table, garbage in allocatable frames); recursive index 300; page-table indices (255,511,0,256)"
    //@ obligation C01 C01.recursive_update_flags_1gib.shape_sym.target_keeps_frame_and_size tier=thorough bounded="pool of 7 tables (4 path + 3 allocatable); tree-shaped sparse pre-state (target path, one neighbour word per path table, garbage in allocatable frames); recursive index 300; page-table indices (255,511,0,256)"
    //@ obligation C11 C11.recursive_update_flags_1gib.shape_sym.target_keeps_frame_and_size tier=thorough bounded="pool of 7 tables (4 path + 3 allocatable); tree-shaped sparse pre-state (target path, one neighbour word per path table, garbage in allocatable frames); recursive index 300; page-table indices (255,511,0,256)"
    //@ obligation C01 C01.recursive_update_flags_1gib.shape_sym.target_leaf_flags_replaced tier=thorough bounded="pool of 7 tables (4 path + 3 allocatable); tree-shaped sparse pre-state (target path, one neighbour word per path table, garbage in allocatable frames); recursive index 300; page-table indices (255,511,0,256)"
    //@ obligation C11 C11.recursive_update_flags_1gib.shape_sym.target_leaf_flags_replaced tier=thorough bounded="pool of 7 tables (4 path + 3 allocatable); tree-shaped sparse pre-state (target path, one neighbour word per path table, garbage in allocatable frames); recursive index 300; page-table indices (255,511,0,256)"
    //@ obligation C01 C01.recursive_update_flags_1gib.shape_sym.other_addresses_unchanged tier=thorough bounded="pool of 7 tables (4 path + 3 allocatable); tree-shaped sparse pre-state (target path, one neighbour word per path table, garbage in allocatable frames); recursive index 300; page-table indices (255,511,0,256)"
    //@ obligation C11 C11.recursive_update_flags_1gib.shape_sym.other_addresses_unchanged tier=thorough bounded="pool of 7 tables (4 path + 3 allocatable); tree-shaped sparse pre-state (target path, one neighbour word per path table, garbage in allocatable frames); recursive index 300; page-table indices (255,511,0,256)"
    //@ obligation C01 C01.recursive_update_flags_1gib.shape_sym.result_reports_page tier=thorough bounded="pool of 7 tables (4 path + 3 allocatable); tree-shaped sparse pre-state (target path, one neighbour word per path table, garbage in allocatable frames); recursive index 300; page-table indices (255,511,0,256)"
    //@ obligation C11 C11.recursive_update_flags_1gib.shape_sym.token_names_page tier=thorough bounded="pool of 7 tables (4 path + 3 allocatable); tree-shaped sparse pre-state (target path, one neighbour word per path table, garbage in allocatable frames); recursive index 300; page-table indices (255,511,0,256)"
    //@ obligation C02 C02.recursive_update_flags_1gib.shape_sym.error_leaves_every_mapping tier=thorough bounded="pool of 7 tables (4 path + 3 allocatable); tree-shaped sparse pre-state (target path, one neighbour word per path table, garbage in allocatable frames); recursive index 300; page-table indices (255,511,0,256)"
    //@ obligation C09 C09.recursive_update_flags_1gib.shape_sym.only_dictated_slots_change tier=thorough bounded="pool of 7 tables (4 path + 3 allocatable); tree-shaped sparse pre-state (target path, one neighbour word per path table, garbage in allocatable frames); recursive index 300; page-table indices (255,511,0,256)"
    //@ obligation C09 C09.recursive_update_flags_1gib.shape_sym.no_frames_requested_or_zeroed tier=thorough bounded="pool of 7 tables (4 path + 3 allocatable); tree-shaped sparse pre-state (target path, one neighbour word per path table, garbage in allocatable frames); recursive index 300; page-table indices (255,511,0,256)"
    //@ obligation C09 C09.recursive_update_flags_1gib.shape_sym.no_dangling_table_pointer tier=thorough bounded="pool of 7 tables (4 path + 3 allocatable); tree-shaped sparse pre-state (target path, one neighbour word per path table, garbage in allocatable frames); recursive index 300; page-table indices (255,511,0,256)"
    //@ obligation C09 C09.recursive_update_flags_1gib.shape_sym.no_access_outside_page_tables tier=thorough bounded="pool of 7 tables (4 path + 3 allocatable); tree-shaped sparse pre-state (target path, one neighbour word per path table, garbage in allocatable frames); recursive index 300; page-table indices (255,511,0,256)"
    //@ obligation C20 C20.recursive_update_flags_1gib.uses_recursive_addresses_of_the_page tier=thorough bounded="pool of 7 tables (4 path + 3 allocatable); tree-shaped sparse pre-state (target path, one neighbour word per path table, garbage in allocatable frames); recursive index 300; page-table indices (255,511,0,256)"
    #[kani::proof]
    #[kani::stub(crate::structures::paging::page_table::PageTable::zero, zero_stub)]
    #[kani::stub(crate::addr::VirtAddr::as_mut_ptr, mmu_trap_as_mut_ptr)]
    fn c01_recursive_update_flags_1gib_sym_mid() {
        rec_update_flags_step!(Size1GiB, "1gib", "sym", P3_SYM, IDX_MID);
        kani::cover!(true, "c01_recursive_update_flags_1gib_sym_mid: reachable");
    }

    //@ obligation C02 C02.recursive_update_flags_1gib.shape_sym.documented_outcome bounded="pool of 7 tables (4 path + 3 allocatable); tree-shaped sparse pre-state (target path, one neighbour word per path table, garbage in allocatable frames); recursive index 300; page-table indices (256,0,510,511)"
    //@ obligation C01 C01.recursive_update_flags_1gib.shape_sym.target_keeps_frame_and_size bounded="pool of 7 tables (4 path + 3 allocatable); tree-shaped sparse pre-state (target path, one neighbour word per path table, garbage in allocatable frames); recursive index 300; page-table indices (256,0,510,511)"
    //@ obligation C11 C11.recursive_update_flags_1gib.shape_sym.target_keeps_frame_and_size bounded="pool of 7 tables (4 path + 3 allocatable); tree-shaped sparse pre-state (target path, one neighbour word per path table, garbage in allocatable frames); recursive index 300; page-table indices (256,0,510,511)"
    //@ obligation C01 C01.recursive_update_flags_1gib.shape_sym.target_leaf_flags_replaced bounded="pool of 7 tables (4 path + 3 allocatable); tree-shaped sparse pre-state (target path, one neighbour word per path table, garbage in allocatable frames); recursive index 300; page-table indices (256,0,510,511)"
    //@ obligation C11 C11.recursive_update_flags_1gib.shape_sym.target_leaf_flags_replaced bounded="pool of 7 tables (4 path + 3 allocatable); tree-shaped sparse pre-state (target path, one neighbour word per path table, garbage in allocatable frames); recursive index 300; page-table indices (256,0,510,511)"
    //@ obligation C01 C01.recursive_update_flags_1gib.shape_sym.other_addresses_unchanged bounded="pool of 7 tables (4 path + 3 allocatable); tree-shaped sparse pre-state (target path, one neighbour word per path table, garbage in allocatable frames); recursive index 300; page-table indices (256,0,510,511)"
    //@ obligation C11 C11.recursive_update_flags_1gib.shape_sym.other_addresses_unchanged bounded="pool of 7 tables (4 path + 3 allocatable); tree-shaped sparse pre-state (target path, one neighbour word per path table, garbage in allocatable frames); recursive index 300; page-table indices (256,0,510,511)"
    //@ obligation C01 C01.recursive_update_flags_1gib.shape_sym.result_reports_page bounded="pool of 7 tables (4 path + 3 allocatable); tree-shaped sparse pre-state (target path, one neighbour word per path table, garbage in allocatable frames); recursive index 300; page-table indices (256,0,510,511)"
    //@ obligation C11 C11.recursive_update_flags_1gib.shape_sym.token_names_page bounded="pool of 7 tables (4 path + 3 allocatable); tree-shaped sparse pre-state (target path, one neighbour word per path table, garbage in allocatable frames); recursive index 300; page-table indices (256,0,510,511)"
    //@ obligation C02 C02.recursive_update_flags_1gib.shape_sym.error_leaves_every_mapping bounded="pool of 7 tables (4 path + 3 allocatable); tree-shaped sparse pre-state (target path, one neighbour word per path table, garbage in allocatable frames); recursive index 300; page-table indices (256,0,510,511)"
    //@ obligation C09 C09.recursive_update_flags_1gib.shape_sym.only_dictated_slots_change bounded="pool of 7 tables (4 path + 3 allocatable); tree-shaped sparse pre-state (target path, one neighbour word per path table, garbage in allocatable frames); recursive index 300; page-table indices (256,0,510,511)"
    //@ obligation C09 C09.recursive_update_flags_1gib.shape_sym.no_frames_requested_or_zeroed bounded="pool of 7 tables (4 path + 3 allocatable); tree-shaped sparse pre-state (target path, one neighbour word per path table, garbage in allocatable frames); recursive index 300; page-table indices (256,0,510,511)"
    //@ obligation C09 C09.recursive_update_flags_1gib.shape_sym.no_dangling_table_pointer bounded="pool of 7 tables (4 path + 3 allocatable); tree-shaped sparse pre-state (target path, one neighbour word per path table, garbage in allocatable frames); recursive index 300; page-table indices (256,0,510,511)"
    //@ obligation C09 C09.recursive_update_flags_1gib.shape_sym.no_access_outside_page_tables bounded="pool of 7 tables (4 path + 3 allocatable); tree-shaped sparse pre-state (target path, one neighbour word per path table, garbage in allocatable frames); recursive index 300; page-table indices (256,0,510,511)"
    //@ obligation C20 C20.recursive_update_flags_1gib.uses_recursive_addresses_of_the_page bounded="pool of 7 tables (4 path + 3 allocatable); tree-shaped sparse pre-state (target path, one neighbour word per path table, garbage in allocatable frames); recursive index 300; page-table indices (256,0,510,511)"
    #[kani::proof]
    #[kani::stub(crate::structures::paging::page_table::PageTable::zero, zero_stub)]
    #[kani::stub(crate::addr::VirtAddr::as_mut_ptr, mmu_trap_as_mut_ptr)]
    fn c01_recursive_update_flags_1gib_sym_up() {
        rec_update_flags_step!(Size1GiB, "1gib", "sym", P3_SYM, IDX_UP);
        kani::cover!(true, "c01_recursive_update_flags_1gib_sym_up: reachable");
    }

    //@ obligation C02 C02.recursive_translate_page_2mib.shape_p4_absent.documented_outcome tier=thorough bounded="pool of 7 tables (4 path + 3 allocatable); tree-shaped sparse pre-state (target path, one neighbour word per path table, garbage in allocatable frames); recursive index 300; page-table indices (255,511,0,256)"
    //@ obligation C01 C01.recursive_translate_page_2mib.shape_p4_absent.agrees_with_walk tier=thorough bounded="pool of 7 tables (4 path + 3 allocatable); tree-shaped sparse pre-state (target path, one neighbour word per path table, garbage in allocatable frames); recursive index 300; page-table indices (255,511,0,256)"
    //@ obligation C09 C09.recursive_translate_page_2mib.shape_p4_absent.writes_nothing tier=thorough bounded="pool of 7 tables (4 path + 3 allocatable); tree-shaped sparse pre-state (target path, one neighbour word per path table, garbage in allocatable frames); recursive index 300; page-table indices (255,511,0,256)"
    //@ obligation C09 C09.recursive_translate_page_2mib.shape_p4_absent.no_frames_requested_or_zeroed tier=thorough bounded="pool of 7 tables (4 path + 3 allocatable); tree-shaped sparse pre-state (target path, one neighbour word per path table, garbage in allocatable frames); recursive index 300; page-table indices (255,511,0,256)"
    //@ obligation C09 C09.recursive_translate_page_2mib.shape_p4_absent.no_access_outside_page_tables tier=thorough bounded="pool of 7 tables (4 path + 3 allocatable); tree-shaped sparse pre-state (target path, one neighbour word per path table, garbage in allocatable frames); recursive index 300; page-table indices (255,511,0,256)"
    #[kani::proof]
    #[kani::stub(crate::structures::paging::page_table::PageTable::zero, zero_stub)]
    #[kani::stub(crate::addr::VirtAddr::as_mut_ptr, mmu_trap_as_mut_ptr)]
    fn c01_recursive_translate_page_2mib_p4_absent_mid() {
        rec_translate_page_step!(Size2MiB, "2mib", "p4_absent", P4_ABSENT, IDX_MID);
        kani::cover!(true, "c01_recursive_translate_page_2mib_p4_absent_mid: reachable");
    }

    //@ obligation C02 C02.recursive_translate_page_2mib.shape_p4_absent.documented_outcome bounded="pool of 7 tables (4 path + 3 allocatable); tree-shaped sparse pre-state (target path, one neighbour word per path table, garbage in allocatable frames); recursive index 300; page-table indices (256,0,510,511)"
    //@ obligation C01 C01.recursive_translate_page_2mib.shape_p4_absent.agrees_with_walk bounded="pool of 7 tables (4 path + 3 allocatable); tree-shaped sparse pre-state (target path, one neighbour word per path table, garbage in allocatable frames); recursive index 300; page-table indices (256,0,510,511)"
    //@ obligation C09 C09.recursive_translate_page_2mib.shape_p4_absent.writes_nothing bounded="pool of 7 tables (4 path + 3 allocatable); tree-shaped sparse pre-state (target path, one neighbour word per path table, garbage in allocatable frames); recursive index 300; page-table indices (256,0,510,511)"
    //@ obligation C09 C09.recursive_translate_page_2mib.shape_p4_absent.no_frames_requested_or_zeroed bounded="pool of 7 tables (4 path + 3 allocatable); tree-shaped sparse pre-state (target path, one neighbour word per path table, garbage in allocatable frames); recursive index 300; page-table indices (256,0,510,511)"
    //@ obligation C09 C09.recursive_translate_page_2mib.shape_p4_absent.no_access_outside_page_tables bounded="pool of 7 tables (4 path + 3 allocatable); tree-shaped sparse pre-state (target path, one neighbour word per path table, garbage in allocatable frames); recursive index 300; page-table indices (256,0,510,511)"
    #[kani::proof]
    #[kani::stub(crate::structures::paging::page_table::PageTable::zero, zero_stub)]
    #[kani::stub(crate::addr::VirtAddr::as_mut_ptr, mmu_trap_as_mut_ptr)]
    fn c01_recursive_translate_page_2mib_p4_absent_up() {
        rec_translate_page_step!(Size2MiB, "2mib", "p4_absent", P4_ABSENT, IDX_UP);
        kani::cover!(true, "c01_recursive_translate_page_2mib_p4_absent_up: reachable");
    }

    //@ obligation C02 C02.recursive_translate_page_2mib.shape_p3_absent.documented_outcome tier=thorough bounded="pool of 7 tables (4 path + 3 allocatable); tree-shaped sparse pre-state (target path, one neighbour word per path table, garbage in allocatable frames); recursive index 300; page-table indices (255,511,0,256)"
    //@ obligation C01 C01.recursive_translate_page_2mib.shape_p3_absent.agrees_with_walk tier=thorough bounded="pool of 7 tables (4 path + 3 allocatable); tree-shaped sparse pre-state (target path, one neighbour word per path table, garbage in allocatable frames); recursive index 300; page-table indices (255,511,0,256)"
    //@ obligation C09 C09.recursive_translate_page_2mib.shape_p3_absent.writes_nothing tier=thorough bounded="pool of 7 tables (4 path + 3 allocatable); tree-shaped sparse pre-state (target path, one neighbour word per path table, garbage in allocatable frames); recursive index 300; page-table indices (255,511,0,256)"
    //@ obligation C09 C09.recursive_translate_page_2mib.shape_p3_absent.no_frames_requested_or_zeroed tier=thorough bounded="pool of 7 tables (4 path + 3 allocatable); tree-shaped sparse pre-state (target path, one neighbour word per path table, garbage in allocatable frames); recursive index 300; page-table indices (255,511,0,256)"
    //@ obligation C09 C09.recursive_translate_page_2mib.shape_p3_absent.no_access_outside_page_tables tier=thorough bounded="pool of 7 tables (4 path + 3 allocatable); tree-shaped sparse pre-state (target path, one neighbour word per path table, garbage in allocatable frames); recursive index 300; page-table indices (255,511,0,256)"
    //@ obligation C20 C20.recursive_translate_page_2mib.uses_recursive_addresses_of_the_page tier=thorough bounded="pool of 7 tables (4 path + 3 allocatable); tree-shaped sparse pre-state (target path, one neighbour word per path table, garbage in allocatable frames); recursive index 300; page-table indices (255,511,0,256)"
    #[kani::proof]
    #[kani::stub(crate::structures::paging::page_table::PageTable::zero, zero_stub)]
    #[kani::stub(crate::addr::VirtAddr::as_mut_ptr, mmu_trap_as_mut_ptr)]
    fn c01_recursive_translate_page_2mib_p3_absent_mid() {
        rec_translate_page_step!(Size2MiB, "2mib", "p3_absent", P3_ABSENT, IDX_MID);
        kani::cover!(true, "c01_recursive_translate_page_2mib_p3_absent_mid: reachable");
    }

    //@ obligation C02 C02.recursive_translate_page_2mib.shape_p3_absent.documented_outcome bounded="pool of 7 tables (4 path + 3 allocatable); tree-shaped sparse pre-state (target path, one neighbour word per path table, garbage in allocatable frames); recursive index 300; page-table indices (256,0,510,511)"
    //@ obligation C01 C01.recursive_translate_page_2mib.shape_p3_absent.agrees_with_walk bounded="pool of 7 tables (4 path + 3 allocatable); tree-shaped sparse pre-state (target path, one neighbour word per path table, garbage in allocatable frames); recursive index 300; page-table indices (256,0,510,511)"
    //@ obligation C09 C09.recursive_translate_page_2mib.shape_p3_absent.writes_nothing bounded="pool of 7 tables (4 path + 3 allocatable); tree-shaped sparse pre-state (target path, one neighbour word per path table, garbage in allocatable frames); recursive index 300; page-table indices (256,0,510,511)"
    //@ obligation C09 C09.recursive_translate_page_2mib.shape_p3_absent.no_frames_requested_or_zeroed bounded="pool of 7 tables (4 path + 3 allocatable); tree-shaped sparse pre-state (target path, one neighbour word per path table, garbage in allocatable frames); recursive index 300; page-table indices (256,0,510,511)"
    //@ obligation C09 C09.recursive_translate_page_2mib.shape_p3_absent.no_access_outside_page_tables bounded="pool of 7 tables (4 path + 3 allocatable); tree-shaped sparse pre-state (target path, one neighbour word per path table, garbage in allocatable frames); recursive index 300; page-table indices (256,0,510,511)"
    //@ obligation C20 C20.recursive_translate_page_2mib.uses_recursive_addresses_of_the_page bounded="pool of 7 tables (4 path + 3 allocatable); tree-shaped sparse pre-state (target path, one neighbour word per path table, garbage in allocatable frames); recursive index 300; page-table indices (256,0,510,511)"
    #[kani::proof]
    #[kani::stub(crate::structures::paging::page_table::PageTable::zero, zero_stub)]
    #[kani::stub(crate::addr::VirtAddr::as_mut_ptr, mmu_trap_as_mut_ptr)]
    fn c01_recursive_translate_page_2mib_p3_absent_up() {
        rec_translate_page_step!(Size2MiB, "2mib", "p3_absent", P3_ABSENT, IDX_UP);
        kani::cover!(true, "c01_recursive_translate_page_2mib_p3_absent_up: reachable");
    }

    //@ obligation C02 C02.recursive_translate_page_2mib.shape_p3_huge.huge_parent_is_reported_not_walked tier=thorough bounded="pool of 7 tables (4 path + 3 allocatable); tree-shaped sparse pre-state (target path, one neighbour word per path table, garbage in allocatable frames); recursive index 300; page-table indices (255,511,0,256)"
    //@ obligation C02 C02.recursive_translate_page_2mib.shape_p3_huge.documented_outcome tier=thorough bounded="pool of 7 tables (4 path + 3 allocatable); tree-shaped sparse pre-state (target path, one neighbour word per path table, garbage in allocatable frames); recursive index 300; page-table indices (255,511,0,256)"
    //@ obligation C01 C01.recursive_translate_page_2mib.shape_p3_huge.agrees_with_walk tier=thorough bounded="pool of 7 tables (4 path + 3 allocatable); tree-shaped sparse pre-state (target path, one neighbour word per path table, garbage in allocatable frames); recursive index 300; page-table indices (255,511,0,256)"
    //@ obligation C09 C09.recursive_translate_page_2mib.shape_p3_huge.writes_nothing tier=thorough bounded="pool of 7 tables (4 path + 3 allocatable); tree-shaped sparse pre-state (target path, one neighbour word per path table, garbage in allocatable frames); recursive index 300; page-table indices (255,511,0,256)"
    //@ obligation C09 C09.recursive_translate_page_2mib.shape_p3_huge.no_frames_requested_or_zeroed tier=thorough bounded="pool of 7 tables (4 path + 3 allocatable); tree-shaped sparse pre-state (target path, one neighbour word per path table, garbage in allocatable frames); recursive index 300; page-table indices (255,511,0,256)"
    //@ obligation C09 C09.recursive_translate_page_2mib.shape_p3_huge.no_access_outside_page_tables tier=thorough bounded="pool of 7 tables (4 path + 3 allocatable); tree-shaped sparse pre-state (target path, one neighbour word per path table, garbage in allocatable frames); recursive index 300; page-table indices (255,511,0,256)"
    //@ obligation C20 C20.recursive_translate_page_2mib.uses_recursive_addresses_of_the_page tier=thorough bounded="pool of 7 tables (4 path + 3 allocatable); tree-shaped sparse pre-state (target path, one neighbour word per path table, garbage in allocatable frames); recursive index 300; page-table indices (255,511,0,256)"
    #[kani::proof]
    #[kani::stub(crate::structures::paging::page_table::PageTable::zero, zero_stub)]
    #[kani::stub(crate::addr::VirtAddr::as_mut_ptr, mmu_trap_as_mut_ptr)]
    fn c01_recursive_translate_page_2mib_p3_huge_mid() {
        rec_translate_page_step!(Size2MiB, "2mib", "p3_huge", P3_HUGE, IDX_MID);
        kani::cover!(true, "c01_recursive_translate_page_2mib_p3_huge_mid: reachable");
    }

    //@ obligation C02 C02.recursive_translate_page_2mib.shape_p3_huge.huge_parent_is_reported_not_walked bounded="pool of 7 tables (4 path + 3 allocatable); tree-shaped sparse pre-state (target path, one neighbour word per path table, garbage in allocatable frames); recursive index 300; page-table indices (256,0,510,511)"
    //@ obligation C02 C02.recursive_translate_page_2mib.shape_p3_huge.documented_outcome bounded="pool of 7 tables (4 path + 3 allocatable); tree-shaped sparse pre-state (target path, one neighbour word per path table, garbage in allocatable frames); recursive index 300; page-table indices (256,0,510,511)"
    //@ obligation C01 C01.recursive_translate_page_2mib.shape_p3_huge.agrees_with_walk bounded="pool of 7 tables (4 path + 3 allocatable); tree-shaped sparse pre-state (target path, one neighbour word per path table, garbage in allocatable frames); recursive index 300; page-table indices (256,0,510,511)"
    //@ obligation C09 C09.recursive_translate_page_2mib.shape_p3_huge.writes_nothing bounded="pool of 7 tables (4 path + 3 allocatable); tree-shaped sparse pre-state (target path, one neighbour word per path table, garbage in allocatable frames); recursive index 300; page-table indices (256,0,510,511)"
    //@ obligation C09 C09.recursive_translate_page_2mib.shape_p3_huge.no_frames_requested_or_zeroed bounded="pool of 7 tables (4 path + 3 allocatable); tree-shaped sparse pre-state (target path, one neighbour word per path table, garbage in allocatable frames); recursive index 300; page-table indices (256,0,510,511)"
    //@ obligation C09 C09.recursive_translate_page_2mib.shape_p3_huge.no_access_outside_page_tables bounded="pool of 7 tables (4 path + 3 allocatable); tree-shaped sparse pre-state (target path, one neighbour word per path table, garbage in allocatable frames); recursive index 300; page-table indices (256,0,510,511)"
    //@ obligation C20 C20.recursive_translate_page_2mib.uses_recursive_addresses_of_the_page bounded="pool of 7 tables (4 path + 3 allocatable); tree-shaped sparse pre-state (target path, one neighbour word per path table, garbage in allocatable frames); recursive index 300; page-table indices (256,0,510,511)"
    #[kani::proof]
    #[kani::stub(crate::structures::paging::page_table::PageTable::zero, zero_stub)]
    #[kani::stub(crate::addr::VirtAddr::as_mut_ptr, mmu_trap_as_mut_ptr)]
    fn c01_recursive_translate_page_2mib_p3_huge_up() {
        rec_translate_page_step!(Size2MiB, "2mib", "p3_huge", P3_HUGE, IDX_UP);
        kani::cover!(true, "c01_recursive_translate_page_2mib_p3_huge_up: reachable");
    }

    //@ obligation C02 C02.recursive_translate_page_2mib.shape_p2_absent.documented_outcome bounded="pool of 7 tables (4 path + 3 allocatable); tree-shaped sparse pre-state (target path, one neighbour word per path table, garbage in allocatable frames); recursive index 300; page-table indices (255,511,0,256)"
    //@ obligation C01 C01.recursive_translate_page_2mib.shape_p2_absent.agrees_with_walk bounded="pool of 7 tables (4 path + 3 allocatable); tree-shaped sparse pre-state (target path, one neighbour word per path table, garbage in allocatable frames); recursive index 300; page-table indices (255,511,0,256)"
    //@ obligation C09 C09.recursive_translate_page_2mib.shape_p2_absent.writes_nothing bounded="pool of 7 tables (4 path + 3 allocatable); tree-shaped sparse pre-state (target path, one neighbour word per path table, garbage in allocatable frames); recursive index 300; page-table indices (255,511,0,256)"
    //@ obligation C09 C09.recursive_translate_page_2mib.shape_p2_absent.no_frames_requested_or_zeroed bounded="pool of 7 tables (4 path + 3 allocatable); tree-shaped sparse pre-state (target path, one neighbour word per path table, garbage in allocatable frames); recursive index 300; page-table indices (255,511,0,256)"
    //@ obligation C09 C09.recursive_translate_page_2mib.shape_p2_absent.no_access_outside_page_tables bounded="pool of 7 tables (4 path + 3 allocatable); tree-shaped sparse pre-state (target path, one neighbour word per path table, garbage in allocatable frames); recursive index 300; page-table indices (255,511,0,256)"
    //@ obligation C20 C20.recursive_translate_page_2mib.uses_recursive_addresses_of_the_page bounded="pool of 7 tables (4 path + 3 allocatable); tree-shaped sparse pre-state (target path, one neighbour word per path table, garbage in allocatable frames); recursive index 300; page-table indices (255,511,0,256)"
    #[kani::proof]
    #[kani::stub(crate::structures::paging::page_table::PageTable::zero, zero_stub)]
    #[kani::stub(crate::addr::VirtAddr::as_mut_ptr, mmu_trap_as_mut_ptr)]
    fn c01_recursive_translate_page_2mib_p2_absent_mid() {
        rec_translate_page_step!(Size2MiB, "2mib", "p2_absent", P2_ABSENT, IDX_MID);
        kani::cover!(true, "c01_recursive_translate_page_2mib_p2_absent_mid: reachable");
    }

    //@ obligation C02 C02.recursive_translate_page_2mib.shape_p2_absent.documented_outcome tier=thorough bounded="pool of 7 tables (4 path + 3 allocatable); tree-shaped sparse pre-state (target path, one neighbour word per path table, garbage in allocatable frames); recursive index 300; page-table indices (256,0,510,511)"
    //@ obligation C01 C01.recursive_translate_page_2mib.shape_p2_absent.agrees_with_walk tier=thorough bounded="pool of 7 tables (4 path + 3 allocatable); tree-shaped sparse pre-state (target path, one neighbour word per path table, garbage in allocatable frames); recursive index 300; page-table indices (256,0,510,511)"
    //@ obligation C09 C09.recursive_translate_page_2mib.shape_p2_absent.writes_nothing tier=thorough bounded="pool of 7 tables (4 path + 3 allocatable); tree-shaped sparse pre-state (target path, one neighbour word per path table, garbage in allocatable frames); recursive index 300; page-table indices (256,0,510,511)"
    //@ obligation C09 C09.recursive_translate_page_2mib.shape_p2_absent.no_frames_requested_or_zeroed tier=thorough bounded="pool of 7 tables (4 path + 3 allocatable); tree-shaped sparse pre-state (target path, one neighbour word per path table, garbage in allocatable frames); recursive index 300; page-table indices (256,0,510,511)"
    //@ obligation C09 C09.recursive_translate_page_2mib.shape_p2_absent.no_access_outside_page_tables tier=thorough bounded="pool of 7 tables (4 path + 3 allocatable); tree-shaped sparse pre-state (target path, one neighbour word per path table, garbage in allocatable frames); recursive index 300; page-table indices (256,0,510,511)"
    //@ obligation C20 C20.recursive_translate_page_2mib.uses_recursive_addresses_of_the_page tier=thorough bounded="pool of 7 tables (4 path + 3 allocatable); tree-shaped sparse pre-state (target path, one neighbour word per path table, garbage in allocatable frames); recursive index 300; page-table indices (256,0,510,511)"
    #[kani::proof]
    #[kani::stub(crate::structures::paging::page_table::PageTable::zero, zero_stub)]
    #[kani::stub(crate::addr::VirtAddr::as_mut_ptr, mmu_trap_as_mut_ptr)]
    fn c01_recursive_translate_page_2mib_p2_absent_up() {
        rec_translate_page_step!(Size2MiB, "2mib", "p2_absent", P2_ABSENT, IDX_UP);
        kani::cover!(true, "c01_recursive_translate_page_2mib_p2_absent_up: reachable");
    }

    //@ obligation C02 C02.recursive_translate_page_2mib.shape_p2_huge.documented_outcome tier=thorough bounded="pool of 7 tables (4 path + 3 allocatable); tree-shaped sparse pre-state (target path, one neighbour word per path table, garbage in allocatable frames); recursive index 300; page-table indices (255,511,0,256)"
    //@ obligation C01 C01.recursive_translate_page_2mib.shape_p2_huge.agrees_with_walk tier=thorough bounded="pool of 7 tables (4 path + 3 allocatable); tree-shaped sparse pre-state (target path, one neighbour word per path table, garbage in allocatable frames); recursive index 300; page-table indices (255,511,0,256)"
    //@ obligation C09 C09.recursive_translate_page_2mib.shape_p2_huge.writes_nothing tier=thorough bounded="pool of 7 tables (4 path + 3 allocatable); tree-shaped sparse pre-state (target path, one neighbour word per path table, garbage in allocatable frames); recursive index 300; page-table indices (255,511,0,256)"
    //@ obligation C09 C09.recursive_translate_page_2mib.shape_p2_huge.no_frames_requested_or_zeroed tier=thorough bounded="pool of 7 tables (4 path + 3 allocatable); tree-shaped sparse pre-state (target path, one neighbour word per path table, garbage in allocatable frames); recursive index 300; page-table indices (255,511,0,256)"
    //@ obligation C09 C09.recursive_translate_page_2mib.shape_p2_huge.no_access_outside_page_tables tier=thorough bounded="pool of 7 tables (4 path + 3 allocatable); tree-shaped sparse pre-state (target path, one neighbour word per path table, garbage in allocatable frames); recursive index 300; page-table indices (255,511,0,256)"
    //@ obligation C20 C20.recursive_translate_page_2mib.uses_recursive_addresses_of_the_page tier=thorough bounded="pool of 7 tables (4 path + 3 allocatable); tree-shaped sparse pre-state (target path, one neighbour word per path table, garbage in allocatable frames); recursive index 300; page-table indices (255,511,0,256)"
    #[kani::proof]
    #[kani::stub(crate::structures::paging::page_table::PageTable::zero, zero_stub)]
    #[kani::stub(crate::addr::VirtAddr::as_mut_ptr, mmu_trap_as_mut_ptr)]
    fn c01_recursive_translate_page_2mib_p2_huge_mid() {
        rec_translate_page_step!(Size2MiB, "2mib", "p2_huge", P2_HUGE, IDX_MID);
        kani::cover!(true, "c01_recursive_translate_page_2mib_p2_huge_mid: reachable");
    }

    //@ obligation C02 C02.recursive_translate_page_2mib.shape_p2_huge.documented_outcome bounded="pool of 7 tables (4 path + 3 allocatable); tree-shaped sparse pre-state (target path, one neighbour word per path table, garbage in allocatable frames); recursive index 300; page-table indices (256,0,510,511)"
    //@ obligation C01 C01.recursive_translate_page_2mib.shape_p2_huge.agrees_with_walk bounded="pool of 7 tables (4 path + 3 allocatable); tree-shaped sparse pre-state (target path, one neighbour word per path table, garbage in allocatable frames); recursive index 300; page-table indices (256,0,510,511)"
    //@ obligation C09 C09.recursive_translate_page_2mib.shape_p2_huge.writes_nothing bounded="pool of 7 tables (4 path + 3 allocatable); tree-shaped sparse pre-state (target path, one neighbour word per path table, garbage in allocatable frames); recursive index 300; page-table indices (256,0,510,511)"
    //@ obligation C09 C09.recursive_translate_page_2mib.shape_p2_huge.no_frames_requested_or_zeroed bounded="pool of 7 tables (4 path + 3 allocatable); tree-shaped sparse pre-state (target path, one neighbour word per path table, garbage in allocatable frames); recursive index 300; page-table indices (256,0,510,511)"
    //@ obligation C09 C09.recursive_translate_page_2mib.shape_p2_huge.no_access_outside_page_tables bounded="pool of 7 tables (4 path + 3 allocatable); tree-shaped sparse pre-state (target path, one neighbour word per path table, garbage in allocatable frames); recursive index 300; page-table indices (256,0,510,511)"
    //@ obligation C20 C20.recursive_translate_page_2mib.uses_recursive_addresses_of_the_page bounded="pool of 7 tables (4 path + 3 allocatable); tree-shaped sparse pre-state (target path, one neighbour word per path table, garbage in allocatable frames); recursive index 300; page-table indices (256,0,510,511)"
    #[kani::proof]
    #[kani::stub(crate::structures::paging::page_table::PageTable::zero, zero_stub)]
    #[kani::stub(crate::addr::VirtAddr::as_mut_ptr, mmu_trap_as_mut_ptr)]
    fn c01_recursive_translate_page_2mib_p2_huge_up() {
        rec_translate_page_step!(Size2MiB, "2mib", "p2_huge", P2_HUGE, IDX_UP);
        kani::cover!(true, "c01_recursive_translate_page_2mib_p2_huge_up: reachable");
    }

    //@ obligation C02 C02.recursive_translate_page_2mib.shape_table_entry.no_success_for_nonexistent_size tier=thorough bounded="pool of 7 tables (4 path + 3 allocatable); tree-shaped sparse pre-state (target path, one neighbour word per path table, garbage in allocatable frames); recursive index 300; page-table indices (255,511,0,256)"
    //@ obligation C02 C02.recursive_translate_page_2mib.shape_table_entry.documented_outcome tier=thorough bounded="pool of 7 tables (4 path + 3 allocatable); tree-shaped sparse pre-state (target path, one neighbour word per path table, garbage in allocatable frames); recursive index 300; page-table indices (255,511,0,256)"
    //@ obligation C09 C09.recursive_translate_page_2mib.shape_table_entry.writes_nothing tier=thorough bounded="pool of 7 tables (4 path + 3 allocatable); tree-shaped sparse pre-state (target path, one neighbour word per path table, garbage in allocatable frames); recursive index 300; page-table indices (255,511,0,256)"
    //@ obligation C09 C09.recursive_translate_page_2mib.shape_table_entry.no_frames_requested_or_zeroed tier=thorough bounded="pool of 7 tables (4 path + 3 allocatable); tree-shaped sparse pre-state (target path, one neighbour word per path table, garbage in allocatable frames); recursive index 300; page-table indices (255,511,0,256)"
    //@ obligation C09 C09.recursive_translate_page_2mib.shape_table_entry.no_access_outside_page_tables tier=thorough bounded="pool of 7 tables (4 path + 3 allocatable); tree-shaped sparse pre-state (target path, one neighbour word per path table, garbage in allocatable frames); recursive index 300; page-table indices (255,511,0,256)"
    //@ obligation C20 C20.recursive_translate_page_2mib.uses_recursive_addresses_of_the_page tier=thorough bounded="pool of 7 tables (4 path + 3 allocatable); tree-shaped sparse pre-state (target path, one neighbour word per path table, garbage in allocatable frames); recursive index 300; page-table indices (255,511,0,256)"
    #[kani::proof]
    #[kani::stub(crate::structures::paging::page_table::PageTable::zero, zero_stub)]
    #[kani::stub(crate::addr::VirtAddr::as_mut_ptr, mmu_trap_as_mut_ptr)]
    fn c01_recursive_translate_page_2mib_table_entry_mid() {
        rec_translate_page_step!(Size2MiB, "2mib", "table_entry", P2_TABLE, IDX_MID);
        kani::cover!(true, "c01_recursive_translate_page_2mib_table_entry_mid: reachable");
    }

    //@ obligation C02 C02.recursive_translate_page_2mib.shape_table_entry.no_success_for_nonexistent_size bounded="pool of 7 tables (4 path + 3 allocatable); tree-shaped sparse pre-state (target path, one neighbour word per path table, garbage in allocatable frames); recursive index 300; page-table indices (256,0,510,511)"
    //@ obligation C02 C02.recursive_translate_page_2mib.shape_table_entry.documented_outcome bounded="pool of 7 tables (4 path + 3 allocatable); tree-shaped sparse pre-state (target path, one neighbour word per path table, garbage in allocatable frames); recursive index 300; page-table indices (256,0,510,511)"
    //@ obligation C09 C09.recursive_translate_page_2mib.shape_table_entry.writes_nothing bounded="pool of 7 tables (4 path + 3 allocatable); tree-shaped sparse pre-state (target path, one neighbour word per path table, garbage in allocatable frames); recursive index 300; page-table indices (256,0,510,511)"
    //@ obligation C09 C09.recursive_translate_page_2mib.shape_table_entry.no_frames_requested_or_zeroed bounded="pool of 7 tables (4 path + 3 allocatable); tree-shaped sparse pre-state (target path, one neighbour word per path table, garbage in allocatable frames); recursive index 300; page-table indices (256,0,510,511)"
    //@ obligation C09 C09.recursive_translate_page_2mib.shape_table_entry.no_access_outside_page_tables bounded="pool of 7 tables (4 path + 3 allocatable); tree-shaped sparse pre-state (target path, one neighbour word per path table, garbage in allocatable frames); recursive index 300; page-table indices (256,0,510,511)"
    //@ obligation C20 C20.recursive_translate_page_2mib.uses_recursive_addresses_of_the_page bounded="pool of 7 tables (4 path + 3 allocatable); tree-shaped sparse pre-state (target path, one neighbour word per path table, garbage in allocatable frames); recursive index 300; page-table indices (256,0,510,511)"
    #[kani::proof]
    #[kani::stub(crate::structures::paging::page_table::PageTable::zero, zero_stub)]
    #[kani::stub(crate::addr::VirtAddr::as_mut_ptr, mmu_trap_as_mut_ptr)]
    fn c01_recursive_translate_page_2mib_table_entry_up() {
        rec_translate_page_step!(Size2MiB, "2mib", "table_entry", P2_TABLE, IDX_UP);
        kani::cover!(true, "c01_recursive_translate_page_2mib_table_entry_up: reachable");
    }

    //@ obligation C02 C02.recursive_translate_page_2mib.shape_sym.documented_outcome tier=thorough bounded="pool of 7 tables (4 path + 3 allocatable); tree-shaped sparse pre-state (target path, one neighbour word per path table, garbage in allocatable frames); recursive index 300; page-table indices (255,511,0,256)"
    //@ obligation C01 C01.recursive_translate_page_2mib.shape_sym.agrees_with_walk tier=thorough bounded="pool of 7 tables (4 path + 3 allocatable); tree-shaped sparse pre-state (target path, one neighbour word per path table, garbage in allocatable frames); recursive index 300; page-table indices (255,511,0,256)"
    //@ obligation C09 C09.recursive_translate_page_2mib.shape_sym.writes_nothing tier=thorough bounded="pool of 7 tables (4 path + 3 allocatable); tree-shaped sparse pre-state (target path, one neighbour word per path table, garbage in allocatable frames); recursive index 300; page-table indices (255,511,0,256)"
    //@ obligation C09 C09.recursive_translate_page_2mib.shape_sym.no_frames_requested_or_zeroed tier=thorough bounded="pool of 7 tables (4 path + 3 allocatable); tree-shaped sparse pre-state (target path, one neighbour word per path table, garbage in allocatable frames); recursive index 300; page-table indices (255,511,0,256)"
    //@ obligation C09 C09.recursive_translate_page_2mib.shape_sym.no_access_outside_page_tables tier=thorough bounded="pool of 7 tables (4 path + 3 allocatable); tree-shaped sparse pre-state (target path, one neighbour word per path table, garbage in allocatable frames); recursive index 300; page-table indices (255,511,0,256)"
    //@ obligation C20 C20.recursive_translate_page_2mib.uses_recursive_addresses_of_the_page tier=thorough bounded="pool of 7 tables (4 path + 3 allocatable); tree-shaped sparse pre-state (target path, one neighbour word per path table, garbage in allocatable frames); recursive index 300; page-table indices (255,511,0,256)"
    #[kani::proof]
    #[kani::stub(crate::structures::paging::page_table::PageTable::zero, zero_stub)]
    #[kani::stub(crate::addr::VirtAddr::as_mut_ptr, mmu_trap_as_mut_ptr)]
    fn c01_recursive_translate_page_2mib_sym_mid() {
        rec_translate_page_step!(Size2MiB, "2mib", "sym", P2_SYM, IDX_MID);
        kani::cover!(true, "c01_recursive_translate_page_2mib_sym_mid: reachable");
    }

    //@ obligation C02 C02.recursive_translate_page_2mib.shape_sym.documented_outcome bounded="pool of 7 tables (4 path + 3 allocatable); tree-shaped sparse pre-state (target path, one neighbour word per path table, garbage in allocatable frames); recursive index 300; page-table indices (256,0,510,511)"
    //@ obligation C01 C01.recursive_translate_page_2mib.shape_sym.agrees_with_walk bounded="pool of 7 tables (4 path + 3 allocatable); tree-shaped sparse pre-state (target path, one neighbour word per path table, garbage in allocatable frames); recursive index 300; page-table indices (256,0,510,511)"
    //@ obligation C09 C09.recursive_translate_page_2mib.shape_sym.writes_nothing bounded="pool of 7 tables (4 path + 3 allocatable); tree-shaped sparse pre-state (target path, one neighbour word per path table, garbage in allocatable frames); recursive index 300; page-table indices (256,0,510,511)"
    //@ obligation C09 C09.recursive_translate_page_2mib.shape_sym.no_frames_requested_or_zeroed bounded="pool of 7 tables (4 path + 3 allocatable); tree-shaped sparse pre-state (target path, one neighbour word per path table, garbage in allocatable frames); recursive index 300; page-table indices (256,0,510,511)"
    //@ obligation C09 C09.recursive_translate_page_2mib.shape_sym.no_access_outside_page_tables bounded="pool of 7 tables (4 path + 3 allocatable); tree-shaped sparse pre-state (target path, one neighbour word per path table, garbage in allocatable frames); recursive index 300; page-table indices (256,0,510,511)"
    //@ obligation C20 C20.recursive_translate_page_2mib.uses_recursive_addresses_of_the_page bounded="pool of 7 tables (4 path + 3 allocatable); tree-shaped sparse pre-state (target path, one neighbour word per path table, garbage in allocatable frames); recursive index 300; page-table indices (256,0,510,511)"
    #[kani::proof]
    #[kani::stub(crate::structures::paging::page_table::PageTable::zero, zero_stub)]
    #[kani::stub(crate::addr::VirtAddr::as_mut_ptr, mmu_trap_as_mut_ptr)]
    fn c01_recursive_translate_page_2mib_sym_up() {
        rec_translate_page_step!(Size2MiB, "2mib", "sym", P2_SYM, IDX_UP);
        kani::cover!(true, "c01_recursive_translate_page_2mib_sym_up: reachable");
    }

    //@ obligation C02 C02.recursive_translate_page_1gib.shape_p4_absent.documented_outcome bounded="pool of 7 tables (4 path + 3 allocatable); tree-shaped sparse pre-state (target path, one neighbour word per path table, garbage in allocatable frames); recursive index 300; page-table indices (255,511,0,256)"
    //@ obligation C01 C01.recursive_translate_page_1gib.shape_p4_absent.agrees_with_walk bounded="pool of 7 tables (4 path + 3 allocatable); tree-shaped sparse pre-state (target path, one neighbour word per path table, garbage in allocatable frames); recursive index 300; page-table indices (255,511,0,256)"
    //@ obligation C09 C09.recursive_translate_page_1gib.shape_p4_absent.writes_nothing bounded="pool of 7 tables (4 path + 3 allocatable); tree-shaped sparse pre-state (target path, one neighbour word per path table, garbage in allocatable frames); recursive index 300; page-table indices (255,511,0,256)"
    //@ obligation C09 C09.recursive_translate_page_1gib.shape_p4_absent.no_frames_requested_or_zeroed bounded="pool of 7 tables (4 path + 3 allocatable); tree-shaped sparse pre-state (target path, one neighbour word per path table, garbage in allocatable frames); recursive index 300; page-table indices (255,511,0,256)"
    //@ obligation C09 C09.recursive_translate_page_1gib.shape_p4_absent.no_access_outside_page_tables bounded="pool of 7 tables (4 path + 3 allocatable); tree-shaped sparse pre-state (target path, one neighbour word per path table, garbage in allocatable frames); recursive index 300; page-table indices (255,511,0,256)"
    #[kani::proof]
    #[kani::stub(crate::structures::paging::page_table::PageTable::zero, zero_stub)]
    #[kani::stub(crate::addr::VirtAddr::as_mut_ptr, mmu_trap_as_mut_ptr)]
    fn c01_recursive_translate_page_1gib_p4_absent_mid() {
        rec_translate_page_step!(Size1GiB, "1gib", "p4_absent", P4_ABSENT, IDX_MID);
        kani::cover!(true, "c01_recursive_translate_page_1gib_p4_absent_mid: reachable");
    }

    //@ obligation C02 C02.recursive_translate_page_1gib.shape_p4_absent.documented_outcome tier=thorough bounded="pool of 7 tables (4 path + 3 allocatable); tree-shaped sparse pre-state (target path, one neighbour word per path table, garbage in allocatable frames); recursive index 300; page-table indices (256,0,510,511)"
    //@ obligation C01 C01.recursive_translate_page_1gib.shape_p4_absent.agrees_with_walk tier=thorough bounded="pool of 7 tables (4 path + 3 allocatable); tree-shaped sparse pre-state (target path, one neighbour word per path table, garbage in allocatable frames); recursive index 300; page-table indices (256,0,510,511)"
    //@ obligation C09 C09.recursive_translate_page_1gib.shape_p4_absent.writes_nothing tier=thorough bounded="pool of 7 tables (4 path + 3 allocatable); tree-shaped sparse pre-state (target path, one neighbour word per path table, garbage in allocatable frames); recursive index 300; page-table indices (256,0,510,511)"
    //@ obligation C09 C09.recursive_translate_page_1gib.shape_p4_absent.no_frames_requested_or_zeroed tier=thorough bounded="pool of 7 tables (4 path + 3 allocatable); tree-shaped sparse pre-state (target path, one neighbour word per path table, garbage in allocatable frames); recursive index 300; page-table indices (256,0,510,511)"
    //@ obligation C09 C09.recursive_translate_page_1gib.shape_p4_absent.no_access_outside_page_tables tier=thorough bounded="pool of 7 tables (4 path + 3 allocatable); tree-shaped sparse pre-state (target path, one neighbour word per path table, garbage in allocatable frames); recursive index 300; page-table indices (256,0,510,511)"
    #[kani::proof]
    #[kani::stub(crate::structures::paging::page_table::PageTable::zero, zero_stub)]
    #[kani::stub(crate::addr::VirtAddr::as_mut_ptr, mmu_trap_as_mut_ptr)]
    fn c01_recursive_translate_page_1gib_p4_absent_up() {
        rec_translate_page_step!(Size1GiB, "1gib", "p4_absent", P4_ABSENT, IDX_UP);
        kani::cover!(true, "c01_recursive_translate_page_1gib_p4_absent_up: reachable");
    }

    //@ obligation C02 C02.recursive_translate_page_1gib.shape_p3_absent.documented_outcome tier=thorough bounded="pool of 7 tables (4 path + 3 allocatable); tree-shaped sparse pre-state (target path, one neighbour word per path table, garbage in allocatable frames); recursive index 300; page-table indices (255,511,0,256)"
    //@ obligation C01 C01.recursive_translate_page_1gib.shape_p3_absent.agrees_with_walk tier=thorough bounded="pool of 7 tables (4 path + 3 allocatable); tree-shaped sparse pre-state (target path, one neighbour word per path table, garbage in allocatable frames); recursive index 300; page-table indices (255,511,0,256)"
    //@ obligation C09 C09.recursive_translate_page_1gib.shape_p3_absent.writes_nothing tier=thorough bounded="pool of 7 tables (4 path + 3 allocatable); tree-shaped sparse pre-state (target path, one neighbour word per path table, garbage in allocatable frames); recursive index 300; page-table indices (255,511,0,256)"
    //@ obligation C09 C09.recursive_translate_page_1gib.shape_p3_absent.no_frames_requested_or_zeroed tier=thorough bounded="pool of 7 tables (4 path + 3 allocatable); tree-shaped sparse pre-state (target path, one neighbour word per path table, garbage in allocatable frames); recursive index 300; page-table indices (255,511,0,256)"
    //@ obligation C09 C09.recursive_translate_page_1gib.shape_p3_absent.no_access_outside_page_tables tier=thorough bounded="pool of 7 tables (4 path + 3 allocatable); tree-shaped sparse pre-state (target path, one neighbour word per path table, garbage in allocatable frames); recursive index 300; page-table indices (255,511,0,256)"
    //@ obligation C20 C20.recursive_translate_page_1gib.uses_recursive_addresses_of_the_page tier=thorough bounded="pool of 7 tables (4 path + 3 allocatable); tree-shaped sparse pre-state (target path, one neighbour word per path table, garbage in allocatable frames); recursive index 300; page-table indices (255,511,0,256)"
    #[kani::proof]
    #[kani::stub(crate::structures::paging::page_table::PageTable::zero, zero_stub)]
    #[kani::stub(crate::addr::VirtAddr::as_mut_ptr, mmu_trap_as_mut_ptr)]
    fn c01_recursive_translate_page_1gib_p3_absent_mid() {
        rec_translate_page_step!(Size1GiB, "1gib", "p3_absent", P3_ABSENT, IDX_MID);
        kani::cover!(true, "c01_recursive_translate_page_1gib_p3_absent_mid: reachable");
    }

    //@ obligation C02 C02.recursive_translate_page_1gib.shape_p3_absent.documented_outcome bounded="pool of 7 tables (4 path + 3 allocatable); tree-shaped sparse pre-state (target path, one neighbour word per path table, garbage in allocatable frames); recursive index 300; page-table indices (256,0,510,511)"
    //@ obligation C01 C01.recursive_translate_page_1gib.shape_p3_absent.agrees_with_walk bounded="pool of 7 tables (4 path + 3 allocatable); tree-shaped sparse pre-state (target path, one neighbour word per path table, garbage in allocatable frames); recursive index 300; page-table indices (256,0,510,511)"
    //@ obligation C09 C09.recursive_translate_page_1gib.shape_p3_absent.writes_nothing bounded="pool of 7 tables (4 path + 3 allocatable); tree-shaped sparse pre-state (target path, one neighbour word per path table, garbage in allocatable frames); recursive index 300; page-table indices (256,0,510,511)"
    //@ obligation C09 C09.recursive_translate_page_1gib.shape_p3_absent.no_frames_requested_or_zeroed bounded="pool of 7 tables (4 path + 3 allocatable); tree-shaped sparse pre-state (target path, one neighbour word per path table, garbage in allocatable frames); recursive index 300; page-table indices (256,0,510,511)"
    //@ obligation C09 C09.recursive_translate_page_1gib.shape_p3_absent.no_access_outside_page_tables bounded="pool of 7 tables (4 path + 3 allocatable); tree-shaped sparse pre-state (target path, one neighbour word per path table, garbage in allocatable frames); recursive index 300; page-table indices (256,0,510,511)"
    //@ obligation C20 C20.recursive_translate_page_1gib.uses_recursive_addresses_of_the_page bounded="pool of 7 tables (4 path + 3 allocatable); tree-shaped sparse pre-state (target path, one neighbour word per path table, garbage in allocatable frames); recursive index 300; page-table indices (256,0,510,511)"
    #[kani::proof]
    #[kani::stub(crate::structures::paging::page_table::PageTable::zero, zero_stub)]
    #[kani::stub(crate::addr::VirtAddr::as_mut_ptr, mmu_trap_as_mut_ptr)]
    fn c01_recursive_translate_page_1gib_p3_absent_up() {
        rec_translate_page_step!(Size1GiB, "1gib", "p3_absent", P3_ABSENT, IDX_UP);
        kani::cover!(true, "c01_recursive_translate_page_1gib_p3_absent_up: reachable");
    }

    //@ obligation C02 C02.recursive_translate_page_1gib.shape_p3_huge.documented_outcome bounded="pool of 7 tables (4 path + 3 allocatable); tree-shaped sparse pre-state (target path, one neighbour word per path table, garbage in allocatable frames); recursive index 300; page-table indices (255,511,0,256)"
    //@ obligation C01 C01.recursive_translate_page_1gib.shape_p3_huge.agrees_with_walk bounded="pool of 7 tables (4 path + 3 allocatable); tree-shaped sparse pre-state (target path, one neighbour word per path table, garbage in allocatable frames); recursive index 300; page-table indices (255,511,0,256)"
    //@ obligation C09 C09.recursive_translate_page_1gib.shape_p3_huge.writes_nothing bounded="pool of 7 tables (4 path + 3 allocatable); tree-shaped sparse pre-state (target path, one neighbour word per path table, garbage in allocatable frames); recursive index 300; page-table indices (255,511,0,256)"
    //@ obligation C09 C09.recursive_translate_page_1gib.shape_p3_huge.no_frames_requested_or_zeroed bounded="pool of 7 tables (4 path + 3 allocatable); tree-shaped sparse pre-state (target path, one neighbour word per path table, garbage in allocatable frames); recursive index 300; page-table indices (255,511,0,256)"
    //@ obligation C09 C09.recursive_translate_page_1gib.shape_p3_huge.no_access_outside_page_tables bounded="pool of 7 tables (4 path + 3 allocatable); tree-shaped sparse pre-state (target path, one neighbour word per path table, garbage in allocatable frames); recursive index 300; page-table indices (255,511,0,256)"
    //@ obligation C20 C20.recursive_translate_page_1gib.uses_recursive_addresses_of_the_page bounded="pool of 7 tables (4 path + 3 allocatable); tree-shaped sparse pre-state (target path, one neighbour word per path table, garbage in allocatable frames); recursive index 300; page-table indices (255,511,0,256)"
    #[kani::proof]
    #[kani::stub(crate::structures::paging::page_table::PageTable::zero, zero_stub)]
    #[kani::stub(crate::addr::VirtAddr::as_mut_ptr, mmu_trap_as_mut_ptr)]
    fn c01_recursive_translate_page_1gib_p3_huge_mid() {
        rec_translate_page_step!(Size1GiB, "1gib", "p3_huge", P3_HUGE, IDX_MID);
        kani::cover!(true, "c01_recursive_translate_page_1gib_p3_huge_mid: reachable");
    }

    //@ obligation C02 C02.recursive_translate_page_1gib.shape_p3_huge.documented_outcome tier=thorough bounded="pool of 7 tables (4 path + 3 allocatable); tree-shaped sparse pre-state (target path, one neighbour word per path table, garbage in allocatable frames); recursive index 300; page-table indices (256,0,510,511)"
    //@ obligation C01 C01.recursive_translate_page_1gib.shape_p3_huge.agrees_with_walk tier=thorough bounded="pool of 7 tables (4 path + 3 allocatable); tree-shaped sparse pre-state (target path, one neighbour word per path table, garbage in allocatable frames); recursive index 300; page-table indices (256,0,510,511)"
    //@ obligation C09 C09.recursive_translate_page_1gib.shape_p3_huge.writes_nothing tier=thorough bounded="pool of 7 tables (4 path + 3 allocatable); tree-shaped sparse pre-state (target path, one neighbour word per path table, garbage in allocatable frames); recursive index 300; page-table indices (256,0,510,511)"
    //@ obligation C09 C09.recursive_translate_page_1gib.shape_p3_huge.no_frames_requested_or_zeroed tier=thorough bounded="pool of 7 tables (4 path + 3 allocatable); tree-shaped sparse pre-state (target path, one neighbour word per path table, garbage in allocatable frames); recursive index 300; page-table indices (256,0,510,511)"
    //@ obligation C09 C09.recursive_translate_page_1gib.shape_p3_huge.no_access_outside_page_tables tier=thorough bounded="pool of 7 tables (4 path + 3 allocatable); tree-shaped sparse pre-state (target path, one neighbour word per path table, garbage in allocatable frames); recursive index 300; page-table indices (256,0,510,511)"
    //@ obligation C20 C20.recursive_translate_page_1gib.uses_recursive_addresses_of_the_page tier=thorough bounded="pool of 7 tables (4 path + 3 allocatable); tree-shaped sparse pre-state (target path, one neighbour word per path table, garbage in allocatable frames); recursive index 300; page-table indices (256,0,510,511)"
    #[kani::proof]
    #[kani::stub(crate::structures::paging::page_table::PageTable::zero, zero_stub)]
    #[kani::stub(crate::addr::VirtAddr::as_mut_ptr, mmu_trap_as_mut_ptr)]
    fn c01_recursive_translate_page_1gib_p3_huge_up() {
        rec_translate_page_step!(Size1GiB, "1gib", "p3_huge", P3_HUGE, IDX_UP);
        kani::cover!(true, "c01_recursive_translate_page_1gib_p3_huge_up: reachable");
    }

    //@ obligation C02 C02.recursive_translate_page_1gib.shape_table_entry.no_success_for_nonexistent_size bounded="pool of 7 tables (4 path + 3 allocatable); tree-shaped sparse pre-state (target path, one neighbour word per path table, garbage in allocatable frames); recursive index 300; page-table indices (255,511,0,256)"
    //@ obligation C02 C02.recursive_translate_page_1gib.shape_table_entry.documented_outcome bounded="pool of 7 tables (4 path + 3 allocatable); tree-shaped sparse pre-state (target path, one neighbour word per path table, garbage in allocatable frames); recursive index 300; page-table indices (255,511,0,256)"
    //@ obligation C09 C09.recursive_translate_page_1gib.shape_table_entry.writes_nothing bounded="pool of 7 tables (4 path + 3 allocatable); tree-shaped sparse pre-state (target path, one neighbour word per path table, garbage in allocatable frames); recursive index 300; page-table indices (255,511,0,256)"
    //@ obligation C09 C09.recursive_translate_page_1gib.shape_table_entry.no_frames_requested_or_zeroed bounded="pool of 7 tables (4 path + 3 allocatable); tree-shaped sparse pre-state (target path, one neighbour word per path table, garbage in allocatable frames); recursive index 300; page-table indices (255,511,0,256)"
    //@ obligation C09 C09.recursive_translate_page_1gib.shape_table_entry.no_access_outside_page_tables bounded="pool of 7 tables (4 path + 3 allocatable); tree-shaped sparse pre-state (target path, one neighbour word per path table, garbage in allocatable frames); recursive index 300; page-table indices (255,511,0,256)"
    //@ obligation C20 C20.recursive_translate_page_1gib.uses_recursive_addresses_of_the_page bounded="pool of 7 tables (4 path + 3 allocatable); tree-shaped sparse pre-state (target path, one neighbour word per path table, garbage in allocatable frames); recursive index 300; page-table indices (255,511,0,256)"
    #[kani::proof]
    #[kani::stub(crate::structures::paging::page_table::PageTable::zero, zero_stub)]
    #[kani::stub(crate::addr::VirtAddr::as_mut_ptr, mmu_trap_as_mut_ptr)]
    fn c01_recursive_translate_page_1gib_table_entry_mid() {
        rec_translate_page_step!(Size1GiB, "1gib", "table_entry", P3_TABLE, IDX_MID);
        kani::cover!(true, "c01_recursive_translate_page_1gib_table_entry_mid: reachable");
    }

    //@ obligation C02 C02.recursive_translate_page_1gib.shape_table_entry.no_success_for_nonexistent_size tier=thorough bounded="pool of 7 tables (4 path + 3 allocatable); tree-shaped sparse pre-state (target path, one neighbour word per path table, garbage in allocatable frames); recursive index 300; page-table indices (256,0,510,511)"
    //@ obligation C02 C02.recursive_translate_page_1gib.shape_table_entry.documented_outcome tier=thorough bounded="pool of 7 tables (4 path + 3 allocatable); tree-shaped sparse pre-state (target path, one neighbour word per path table, garbage in allocatable frames); recursive index 300; page-table indices (256,0,510,511)"
    //@ obligation C09 C09.recursive_translate_page_1gib.shape_table_entry.writes_nothing tier=thorough bounded="pool of 7 tables (4 path + 3 allocatable); tree-shaped sparse pre-state (target path, one neighbour word per path table, garbage in allocatable frames); recursive index 300; page-table indices (256,0,510,511)"
    //@ obligation C09 C09.recursive_translate_page_1gib.shape_table_entry.no_frames_requested_or_zeroed tier=thorough bounded="pool of 7 tables (4 path + 3 allocatable); tree-shaped sparse pre-state (target path, one neighbour word per path table, garbage in allocatable frames); recursive index 300; page-table indices (256,0,510,511)"
    //@ obligation C09 C09.recursive_translate_page_1gib.shape_table_entry.no_access_outside_page_tables tier=thorough bounded="pool of 7 tables (4 path + 3 allocatable); tree-shaped sparse pre-state (target path, one neighbour word per path table, garbage in allocatable frames); recursive index 300; page-table indices (256,0,510,511)"
    //@ obligation C20 C20.recursive_translate_page_1gib.uses_recursive_addresses_of_the_page tier=thorough bounded="pool of 7 tables (4 path + 3 allocatable); tree-shaped sparse pre-state (target path, one neighbour word per path table, garbage in allocatable frames); recursive index 300; page-table indices (256,0,510,511)"
    #[kani::proof]
    #[kani::stub(crate::structures::paging::page_table::PageTable::zero, zero_stub)]
    #[kani::stub(crate::addr::VirtAddr::as_mut_ptr, mmu_trap_as_mut_ptr)]
    fn c01_recursive_translate_page_1gib_table_entry_up() {
        rec_translate_page_step!(Size1GiB, "1gib", "table_entry", P3_TABLE, IDX_UP);
        kani::cover!(true, "c01_recursive_translate_page_1gib_table_entry_up: reachable");
    }

    //@ obligation C02 C02.recursive_translate_page_1gib.shape_sym.documented_outcome tier=thorough bounded="pool of 7 tables (4 path + 3 allocatable); tree-shaped sparse pre-state (target path, one neighbour word per path table, garbage in allocatable frames); recursive index 300; page-table indices (255,511,0,256)"
    //@ obligation C01 C01.recursive_translate_page_1gib.shape_sym.agrees_with_walk tier=thorough bounded="pool of 7 tables (4 path + 3 allocatable); tree-shaped sparse pre-state (target path, one neighbour word per path table, garbage in allocatable frames); recursive index 300; page-table indices (255,511,0,256)"
    //@ obligation C09 C09.recursive_translate_page_1gib.shape_sym.writes_nothing tier=thorough bounded="pool of 7 tables (4 path + 3 allocatable); tree-shaped sparse pre-state (target path, one neighbour word per path table, garbage in allocatable frames); recursive index 300; page-table indices (255,511,0,256)"
    //@ obligation C09 C09.recursive_translate_page_1gib.shape_sym.no_frames_requested_or_zeroed tier=thorough bounded="pool of 7 tables (4 path + 3 allocatable); tree-shaped sparse pre-state (target path, one neighbour word per path table, garbage in allocatable frames); recursive index 300; page-table indices (255,511,0,256)"
    //@ obligation C09 C09.recursive_translate_page_1gib.shape_sym.no_access_outside_page_tables tier=thorough bounded="pool of 7 tables (4 path + 3 allocatable); tree-shaped sparse pre-state (target path, one neighbour word per path table, garbage in allocatable frames); recursive index 300; page-table indices (255,511,0,256)"
    //@ obligation C20 C20.recursive_translate_page_1gib.uses_recursive_addresses_of_the_page tier=thorough bounded="pool of 7 tables (4 path + 3 allocatable); tree-shaped sparse pre-state (target path, one neighbour word per path table, garbage in allocatable frames); recursive index 300; page-table indices (255,511,0,256)"
    #[kani::proof]
    #[kani::stub(crate::structures::paging::page_table::PageTable::zero, zero_stub)]
    #[kani::stub(crate::addr::VirtAddr::as_mut_ptr, mmu_trap_as_mut_ptr)]
    fn c01_recursive_translate_page_1gib_sym_mid() {
        rec_translate_page_step!(Size1GiB, "1gib", "sym", P3_SYM, IDX_MID);
        kani::cover!(true, "c01_recursive_translate_page_1gib_sym_mid: reachable");
    }

    //@ obligation C02 C02.recursive_translate_page_1gib.shape_sym.documented_outcome bounded="pool of 7 tables (4 path + 3 allocatable); tree-shaped sparse pre-state (target path, one neighbour word per path table, garbage in allocatable frames); recursive index 300; page-table indices (256,0,510,511)"
    //@ obligation C01 C01.recursive_translate_page_1gib.shape_sym.agrees_with_walk bounded="pool of 7 tables (4 path + 3 allocatable); tree-shaped sparse pre-state (target path, one neighbour word per path table, garbage in allocatable frames); recursive index 300; page-table indices (256,0,510,511)"
    //@ obligation C09 C09.recursive_translate_page_1gib.shape_sym.writes_nothing bounded="pool of 7 tables (4 path + 3 allocatable); tree-shaped sparse pre-state (target path, one neighbour word per path table, garbage in allocatable frames); recursive index 300; page-table indices (256,0,510,511)"
    //@ obligation C09 C09.recursive_translate_page_1gib.shape_sym.no_frames_requested_or_zeroed bounded="pool of 7 tables (4 path + 3 allocatable); tree-shaped sparse pre-state (target path, one neighbour word per path table, garbage in allocatable frames); recursive index 300; page-table indices (256,0,510,511)"
    //@ obligation C09 C09.recursive_translate_page_1gib.shape_sym.no_access_outside_page_tables bounded="pool of 7 tables (4 path + 3 allocatable); tree-shaped sparse pre-state (target path, one neighbour word per path table, garbage in allocatable frames); recursive index 300; page-table indices (256,0,510,511)"
    //@ obligation C20 C20.recursive_translate_page_1gib.uses_recursive_addresses_of_the_page bounded="pool of 7 tables (4 path + 3 allocatable); tree-shaped sparse pre-state (target path, one neighbour word per path table, garbage in allocatable frames); recursive index 300; page-table indices (256,0,510,511)"
    #[kani::proof]
    #[kani::stub(crate::structures::paging::page_table::PageTable::zero, zero_stub)]
    #[kani::stub(crate::addr::VirtAddr::as_mut_ptr, mmu_trap_as_mut_ptr)]
    fn c01_recursive_translate_page_1gib_sym_up() {
        rec_translate_page_step!(Size1GiB, "1gib", "sym", P3_SYM, IDX_UP);
        kani::cover!(true, "c01_recursive_translate_page_1gib_sym_up: reachable");
    }

    //@ obligation C02 C02.recursive_set_flags_p4_entry_4kib.shape_p4_absent.documented_outcome bounded="pool of 7 tables (4 path + 3 allocatable); tree-shaped sparse pre-state (target path, one neighbour word per path table, garbage in allocatable frames); recursive index 300; page-table indices (255,511,0,256)"
    //@ obligation C02 C02.recursive_set_flags_p4_entry_4kib.shape_p4_absent.error_leaves_every_mapping bounded="pool of 7 tables (4 path + 3 allocatable); tree-shaped sparse pre-state (target path, one neighbour word per path table, garbage in allocatable frames); recursive index 300; page-table indices (255,511,0,256)"
    //@ obligation C09 C09.recursive_set_flags_p4_entry_4kib.shape_p4_absent.only_dictated_slots_change bounded="pool of 7 tables (4 path + 3 allocatable); tree-shaped sparse pre-state (target path, one neighbour word per path table, garbage in allocatable frames); recursive index 300; page-table indices (255,511,0,256)"
    //@ obligation C09 C09.recursive_set_flags_p4_entry_4kib.shape_p4_absent.no_frames_requested_or_zeroed bounded="pool of 7 tables (4 path + 3 allocatable); tree-shaped sparse pre-state (target path, one neighbour word per path table, garbage in allocatable frames); recursive index 300; page-table indices (255,511,0,256)"
    //@ obligation C09 C09.recursive_set_flags_p4_entry_4kib.shape_p4_absent.no_dangling_table_pointer bounded="pool of 7 tables (4 path + 3 allocatable); tree-shaped sparse pre-state (target path, one neighbour word per path table, garbage in allocatable frames); recursive index 300; page-table indices (255,511,0,256)"
    //@ obligation C09 C09.recursive_set_flags_p4_entry_4kib.shape_p4_absent.no_access_outside_page_tables bounded="pool of 7 tables (4 path + 3 allocatable); tree-shaped sparse pre-state (target path, one neighbour word per path table, garbage in allocatable frames); recursive index 300; page-table indices (255,511,0,256)"
    #[kani::proof]
    #[kani::stub(crate::structures::paging::page_table::PageTable::zero, zero_stub)]
    #[kani::stub(crate::addr::VirtAddr::as_mut_ptr, mmu_trap_as_mut_ptr)]
    fn c01_recursive_set_flags_p4_entry_4kib_p4_absent_mid() {
        rec_set_flags_step!(Size4KiB, "4kib", "p4_absent", P4_ABSENT, IDX_MID, set_flags_p4_entry, "set_flags_p4_entry", 0);
        kani::cover!(true, "c01_recursive_set_flags_p4_entry_4kib_p4_absent_mid: reachable");
    }

    //@ obligation C02 C02.recursive_set_flags_p4_entry_4kib.shape_p4_absent.documented_outcome tier=thorough bounded="pool of 7 tables (4 path + 3 allocatable); tree-shaped sparse pre-state (target path, one neighbour word per path table, garbage in allocatable frames); recursive index 300; page-table indices (256,0,510,511)"
    //@ obligation C02 C02.recursive_set_flags_p4_entry_4kib.shape_p4_absent.error_leaves_every_mapping tier=thorough bounded="pool of 7 tables (4 path + 3 allocatable); tree-shaped sparse pre-state (target path, one neighbour word per path table, garbage in allocatable frames); recursive index 300; page-table indices (256,0,510,511)"
    //@ obligation C09 C09.recursive_set_flags_p4_entry_4kib.shape_p4_absent.only_dictated_slots_change tier=thorough bounded="pool of 7 tables (4 path + 3 allocatable); tree-shaped sparse pre-state (target path, one neighbour word per path table, garbage in allocatable frames); recursive index 300; page-table indices (256,0,510,511)"
    //@ obligation C09 C09.recursive_set_flags_p4_entry_4kib.shape_p4_absent.no_frames_requested_or_zeroed tier=thorough bounded="pool of 7 tables (4 path + 3 allocatable); tree-shaped sparse pre-state (target path, one neighbour word per path table, garbage in allocatable frames); recursive index 300; page-table indices (256,0,510,511)"
    //@ obligation C09 C09.recursive_set_flags_p4_entry_4kib.shape_p4_absent.no_dangling_table_pointer tier=thorough bounded="pool of 7 tables (4 path + 3 allocatable); tree-shaped sparse pre-state (target path, one neighbour word per path table, garbage in allocatable frames); recursive index 300; page-table indices (256,0,510,511)"
    //@ obligation C09 C09.recursive_set_flags_p4_entry_4kib.shape_p4_absent.no_access_outside_page_tables tier=thorough bounded="pool of 7 tables (4 path + 3 allocatable); tree-shaped sparse pre-state (target path, one neighbour word per path table, garbage in allocatable frames); recursive index 300; page-table indices (256,0,510,511)"
    #[kani::proof]
    #[kani::stub(crate::structures::paging::page_table::PageTable::zero, zero_stub)]
    #[kani::stub(crate::addr::VirtAddr::as_mut_ptr, mmu_trap_as_mut_ptr)]
    fn c01_recursive_set_flags_p4_entry_4kib_p4_absent_up() {
        rec_set_flags_step!(Size4KiB, "4kib", "p4_absent", P4_ABSENT, IDX_UP, set_flags_p4_entry, "set_flags_p4_entry", 0);
        kani::cover!(true, "c01_recursive_set_flags_p4_entry_4kib_p4_absent_up: reachable");
    }

    //@ obligation C02 C02.recursive_set_flags_p4_entry_4kib.shape_p4_table.documented_outcome tier=thorough bounded="pool of 7 tables (4 path + 3 allocatable); tree-shaped sparse pre-state (target path, one neighbour word per path table, garbage in allocatable frames); recursive index 300; page-table indices (255,511,0,256)"
    //@ obligation C01 C01.recursive_set_flags_p4_entry_4kib.shape_p4_table.no_leaf_changes tier=thorough bounded="pool of 7 tables (4 path + 3 allocatable); tree-shaped sparse pre-state (target path, one neighbour word per path table, garbage in allocatable frames); recursive index 300; page-table indices (255,511,0,256)"
    //@ obligation C01 C01.recursive_set_flags_p4_entry_4kib.shape_p4_table.entry_flags_replaced_address_kept tier=thorough bounded="pool of 7 tables (4 path + 3 allocatable); tree-shaped sparse pre-state (target path, one neighbour word per path table, garbage in allocatable frames); recursive index 300; page-table indices (255,511,0,256)"
    //@ obligation C11 C11.recursive_set_flags_p4_entry_4kib.shape_p4_table.flush_all_token tier=thorough bounded="pool of 7 tables (4 path + 3 allocatable); tree-shaped sparse pre-state (target path, one neighbour word per path table, garbage in allocatable frames); recursive index 300; page-table indices (255,511,0,256)"
    //@ obligation C09 C09.recursive_set_flags_p4_entry_4kib.shape_p4_table.only_dictated_slots_change tier=thorough bounded="pool of 7 tables (4 path + 3 allocatable); tree-shaped sparse pre-state (target path, one neighbour word per path table, garbage in allocatable frames); recursive index 300; page-table indices (255,511,0,256)"
    //@ obligation C09 C09.recursive_set_flags_p4_entry_4kib.shape_p4_table.no_frames_requested_or_zeroed tier=thorough bounded="pool of 7 tables (4 path + 3 allocatable); tree-shaped sparse pre-state (target path, one neighbour word per path table, garbage in allocatable frames); recursive index 300; page-table indices (255,511,0,256)"
    //@ obligation C09 C09.recursive_set_flags_p4_entry_4kib.shape_p4_table.no_dangling_table_pointer tier=thorough bounded="pool of 7 tables (4 path + 3 allocatable); tree-shaped sparse pre-state (target path, one neighbour word per path table, garbage in allocatable frames); recursive index 300; page-table indices (255,511,0,256)"
    //@ obligation C09 C09.recursive_set_flags_p4_entry_4kib.shape_p4_table.no_access_outside_page_tables tier=thorough bounded="pool of 7 tables (4 path + 3 allocatable); tree-shaped sparse pre-state (target path, one neighbour word per path table, garbage in allocatable frames); recursive index 300; page-table indices (255,511,0,256)"
    #[kani::proof]
    #[kani::stub(crate::structures::paging::page_table::PageTable::zero, zero_stub)]
    #[kani::stub(crate::addr::VirtAddr::as_mut_ptr, mmu_trap_as_mut_ptr)]
    fn c01_recursive_set_flags_p4_entry_4kib_p4_table_mid() {
        rec_set_flags_step!(Size4KiB, "4kib", "p4_table", P3_ABSENT, IDX_MID, set_flags_p4_entry, "set_flags_p4_entry", 0);
        kani::cover!(true, "c01_recursive_set_flags_p4_entry_4kib_p4_table_mid: reachable");
    }

    //@ obligation C02 C02.recursive_set_flags_p4_entry_4kib.shape_p4_table.documented_outcome bounded="pool of 7 tables (4 path + 3 allocatable); tree-shaped sparse pre-state (target path, one neighbour word per path table, garbage in allocatable frames); recursive index 300; page-table indices (256,0,510,511)"
    //@ obligation C01 C01.recursive_set_flags_p4_entry_4kib.shape_p4_table.no_leaf_changes bounded="pool of 7 tables (4 path + 3 allocatable); tree-shaped sparse pre-state (target path, one neighbour word per path table, garbage in allocatable frames); recursive index 300; page-table indices (256,0,510,511)"
    //@ obligation C01 C01.recursive_set_flags_p4_entry_4kib.shape_p4_table.entry_flags_replaced_address_kept bounded="pool of 7 tables (4 path + 3 allocatable); tree-shaped sparse pre-state (target path, one neighbour word per path table, garbage in allocatable frames); recursive index 300; page-table indices (256,0,510,511)"
    //@ obligation C11 C11.recursive_set_flags_p4_entry_4kib.shape_p4_table.flush_all_token bounded="pool of 7 tables (4 path + 3 allocatable); tree-shaped sparse pre-state (target path, one neighbour word per path table, garbage in allocatable frames); recursive index 300; page-table indices (256,0,510,511)"
    //@ obligation C09 C09.recursive_set_flags_p4_entry_4kib.shape_p4_table.only_dictated_slots_change bounded="pool of 7 tables (4 path + 3 allocatable); tree-shaped sparse pre-state (target path, one neighbour word per path table, garbage in allocatable frames); recursive index 300; page-table indices (256,0,510,511)"
    //@ obligation C09 C09.recursive_set_flags_p4_entry_4kib.shape_p4_table.no_frames_requested_or_zeroed bounded="pool of 7 tables (4 path + 3 allocatable); tree-shaped sparse pre-state (target path, one neighbour word per path table, garbage in allocatable frames); recursive index 300; page-table indices (256,0,510,511)"
    //@ obligation C09 C09.recursive_set_flags_p4_entry_4kib.shape_p4_table.no_dangling_table_pointer bounded="pool of 7 tables (4 path + 3 allocatable); tree-shaped sparse pre-state (target path, one neighbour word per path table, garbage in allocatable frames); recursive index 300; page-table indices (256,0,510,511)"
    //@ obligation C09 C09.recursive_set_flags_p4_entry_4kib.shape_p4_table.no_access_outside_page_tables bounded="pool of 7 tables (4 path + 3 allocatable); tree-shaped sparse pre-state (target path, one neighbour word per path table, garbage in allocatable frames); recursive index 300; page-table indices (256,0,510,511)"
    #[kani::proof]
    #[kani::stub(crate::structures::paging::page_table::PageTable::zero, zero_stub)]
    #[kani::stub(crate::addr::VirtAddr::as_mut_ptr, mmu_trap_as_mut_ptr)]
    fn c01_recursive_set_flags_p4_entry_4kib_p4_table_up() {
        rec_set_flags_step!(Size4KiB, "4kib", "p4_table", P3_ABSENT, IDX_UP, set_flags_p4_entry, "set_flags_p4_entry", 0);
        kani::cover!(true, "c01_recursive_set_flags_p4_entry_4kib_p4_table_up: reachable");
    }

    //@ obligation C02 C02.recursive_set_flags_p3_entry_4kib.shape_p4_absent.documented_outcome bounded="pool of 7 tables (4 path + 3 allocatable); tree-shaped sparse pre-state (target path, one neighbour word per path table, garbage in allocatable frames); recursive index 300; page-table indices (255,511,0,256)"
    //@ obligation C02 C02.recursive_set_flags_p3_entry_4kib.shape_p4_absent.error_leaves_every_mapping bounded="pool of 7 tables (4 path + 3 allocatable); tree-shaped sparse pre-state (target path, one neighbour word per path table, garbage in allocatable frames); recursive index 300; page-table indices (255,511,0,256)"
    //@ obligation C09 C09.recursive_set_flags_p3_entry_4kib.shape_p4_absent.only_dictated_slots_change bounded="pool of 7 tables (4 path + 3 allocatable); tree-shaped sparse pre-state (target path, one neighbour word per path table, garbage in allocatable frames); recursive index 300; page-table indices (255,511,0,256)"
    //@ obligation C09 C09.recursive_set_flags_p3_entry_4kib.shape_p4_absent.no_frames_requested_or_zeroed bounded="pool of 7 tables (4 path + 3 allocatable); tree-shaped sparse pre-state (target path, one neighbour word per path table, garbage in allocatable frames); recursive index 300; page-table indices (255,511,0,256)"
    //@ obligation C09 C09.recursive_set_flags_p3_entry_4kib.shape_p4_absent.no_dangling_table_pointer bounded="pool of 7 tables (4 path + 3 allocatable); tree-shaped sparse pre-state (target path, one neighbour word per path table, garbage in allocatable frames); recursive index 300; page-table indices (255,511,0,256)"
    //@ obligation C09 C09.recursive_set_flags_p3_entry_4kib.shape_p4_absent.no_access_outside_page_tables bounded="pool of 7 tables (4 path + 3 allocatable); tree-shaped sparse pre-state (target path, one neighbour word per path table, garbage in allocatable frames); recursive index 300; page-table indices (255,511,0,256)"
    #[kani::proof]
    #[kani::stub(crate::structures::paging::page_table::PageTable::zero, zero_stub)]
    #[kani::stub(crate::addr::VirtAddr::as_mut_ptr, mmu_trap_as_mut_ptr)]
    fn c01_recursive_set_flags_p3_entry_4kib_p4_absent_mid() {
        rec_set_flags_step!(Size4KiB, "4kib", "p4_absent", P4_ABSENT, IDX_MID, set_flags_p3_entry, "set_flags_p3_entry", 1);
        kani::cover!(true, "c01_recursive_set_flags_p3_entry_4kib_p4_absent_mid: reachable");
    }

    //@ obligation C02 C02.recursive_set_flags_p3_entry_4kib.shape_p4_absent.documented_outcome tier=thorough bounded="pool of 7 tables (4 path + 3 allocatable); tree-shaped sparse pre-state (target path, one neighbour word per path table, garbage in allocatable frames); recursive index 300; page-table indices (256,0,510,511)"
    //@ obligation C02 C02.recursive_set_flags_p3_entry_4kib.shape_p4_absent.error_leaves_every_mapping tier=thorough bounded="pool of 7 tables (4 path + 3 allocatable); tree-shaped sparse pre-state (target path, one neighbour word per path table, garbage in allocatable frames); recursive index 300; page-table indices (256,0,510,511)"
    //@ obligation C09 C09.recursive_set_flags_p3_entry_4kib.shape_p4_absent.only_dictated_slots_change tier=thorough bounded="pool of 7 tables (4 path + 3 allocatable); tree-shaped sparse pre-state (target path, one neighbour word per path table, garbage in allocatable frames); recursive index 300; page-table indices (256,0,510,511)"
    //@ obligation C09 C09.recursive_set_flags_p3_entry_4kib.shape_p4_absent.no_frames_requested_or_zeroed tier=thorough bounded="pool of 7 tables (4 path + 3 allocatable); tree-shaped sparse pre-state (target path, one neighbour word per path table, garbage in allocatable frames); recursive index 300; page-table indices (256,0,510,511)"
    //@ obligation C09 C09.recursive_set_flags_p3_entry_4kib.shape_p4_absent.no_dangling_table_pointer tier=thorough bounded="pool of 7 tables (4 path + 3 allocatable); tree-shaped sparse pre-state (target path, one neighbour word per path table, garbage in allocatable frames); recursive index 300; page-table indices (256,0,510,511)"
    //@ obligation C09 C09.recursive_set_flags_p3_entry_4kib.shape_p4_absent.no_access_outside_page_tables tier=thorough bounded="pool of 7 tables (4 path + 3 allocatable); tree-shaped sparse pre-state (target path, one neighbour word per path table, garbage in allocatable frames); recursive index 300; page-table indices (256,0,510,511)"
    #[kani::proof]
    #[kani::stub(crate::structures::paging::page_table::PageTable::zero, zero_stub)]
    #[kani::stub(crate::addr::VirtAddr::as_mut_ptr, mmu_trap_as_mut_ptr)]
    fn c01_recursive_set_flags_p3_entry_4kib_p4_absent_up() {
        rec_set_flags_step!(Size4KiB, "4kib", "p4_absent", P4_ABSENT, IDX_UP, set_flags_p3_entry, "set_flags_p3_entry", 1);
        kani::cover!(true, "c01_recursive_set_flags_p3_entry_4kib_p4_absent_up: reachable");
    }

    //@ obligation C02 C02.recursive_set_flags_p3_entry_4kib.shape_p3_absent.documented_outcome bounded="pool of 7 tables (4 path + 3 allocatable); tree-shaped sparse pre-state (target path, one neighbour word per path table, garbage in allocatable frames); recursive index 300; page-table indices (255,511,0,256)"
    //@ obligation C02 C02.recursive_set_flags_p3_entry_4kib.shape_p3_absent.error_leaves_every_mapping bounded="pool of 7 tables (4 path + 3 allocatable); tree-shaped sparse pre-state (target path, one neighbour word per path table, garbage in allocatable frames); recursive index 300; page-table indices (255,511,0,256)"
    //@ obligation C09 C09.recursive_set_flags_p3_entry_4kib.shape_p3_absent.only_dictated_slots_change bounded="pool of 7 tables (4 path + 3 allocatable); tree-shaped sparse pre-state (target path, one neighbour word per path table, garbage in allocatable frames); recursive index 300; page-table indices (255,511,0,256)"
    //@ obligation C09 C09.recursive_set_flags_p3_entry_4kib.shape_p3_absent.no_frames_requested_or_zeroed bounded="pool of 7 tables (4 path + 3 allocatable); tree-shaped sparse pre-state (target path, one neighbour word per path table, garbage in allocatable frames); recursive index 300; page-table indices (255,511,0,256)"
    //@ obligation C09 C09.recursive_set_flags_p3_entry_4kib.shape_p3_absent.no_dangling_table_pointer bounded="pool of 7 tables (4 path + 3 allocatable); tree-shaped sparse pre-state (target path, one neighbour word per path table, garbage in allocatable frames); recursive index 300; page-table indices (255,511,0,256)"
    //@ obligation C09 C09.recursive_set_flags_p3_entry_4kib.shape_p3_absent.no_access_outside_page_tables bounded="pool of 7 tables (4 path + 3 allocatable); tree-shaped sparse pre-state (target path, one neighbour word per path table, garbage in allocatable frames); recursive index 300; page-table indices (255,511,0,256)"
    //@ obligation C20 C20.recursive_set_flags_p3_entry_4kib.uses_recursive_addresses_of_the_page bounded="pool of 7 tables (4 path + 3 allocatable); tree-shaped sparse pre-state (target path, one neighbour word per path table, garbage in allocatable frames); recursive index 300; page-table indices (255,511,0,256)"
    #[kani::proof]
    #[kani::stub(crate::structures::paging::page_table::PageTable::zero, zero_stub)]
    #[kani::stub(crate::addr::VirtAddr::as_mut_ptr, mmu_trap_as_mut_ptr)]
    fn c01_recursive_set_flags_p3_entry_4kib_p3_absent_mid() {
        rec_set_flags_step!(Size4KiB, "4kib", "p3_absent", P3_ABSENT, IDX_MID, set_flags_p3_entry, "set_flags_p3_entry", 1);
        kani::cover!(true, "c01_recursive_set_flags_p3_entry_4kib_p3_absent_mid: reachable");
    }

    //@ obligation C02 C02.recursive_set_flags_p3_entry_4kib.shape_p3_absent.documented_outcome tier=thorough bounded="pool of 7 tables (4 path + 3 allocatable); tree-shaped sparse pre-state (target path, one neighbour word per path table, garbage in allocatable frames); recursive index 300; page-table indices (256,0,510,511)"
    //@ obligation C02 C02.recursive_set_flags_p3_entry_4kib.shape_p3_absent.error_leaves_every_mapping tier=thorough bounded="pool of 7 tables (4 path + 3 allocatable); tree-shaped sparse pre-state (target path, one neighbour word per path table, garbage in allocatable frames); recursive index 300; page-table indices (256,0,510,511)"
    //@ obligation C09 C09.recursive_set_flags_p3_entry_4kib.shape_p3_absent.only_dictated_slots_change tier=thorough bounded="pool of 7 tables (4 path + 3 allocatable); tree-shaped sparse pre-state (target path, one neighbour word per path table, garbage in allocatable frames); recursive index 300; page-table indices (256,0,510,511)"
    //@ obligation C09 C09.recursive_set_flags_p3_entry_4kib.shape_p3_absent.no_frames_requested_or_zeroed tier=thorough bounded="pool of 7 tables (4 path + 3 allocatable); tree-shaped sparse pre-state (target path, one neighbour word per path table, garbage in allocatable frames); recursive index 300; page-table indices (256,0,510,511)"
    //@ obligation C09 C09.recursive_set_flags_p3_entry_4kib.shape_p3_absent.no_dangling_table_pointer tier=thorough bounded="pool of 7 tables (4 path + 3 allocatable); tree-shaped sparse pre-state (target path, one neighbour word per path table, garbage in allocatable frames); recursive index 300; page-table indices (256,0,510,511)"
    //@ obligation C09 C09.recursive_set_flags_p3_entry_4kib.shape_p3_absent.no_access_outside_page_tables tier=thorough bounded="pool of 7 tables (4 path + 3 allocatable); tree-shaped sparse pre-state (target path, one neighbour word per path table, garbage in allocatable frames); recursive index 300; page-table indices (256,0,510,511)"
    //@ obligation C20 C20.recursive_set_flags_p3_entry_4kib.uses_recursive_addresses_of_the_page tier=thorough bounded="pool of 7 tables (4 path + 3 allocatable); tree-shaped sparse pre-state (target path, one neighbour word per path table, garbage in allocatable frames); recursive index 300; page-table indices (256,0,510,511)"
    #[kani::proof]
    #[kani::stub(crate::structures::paging::page_table::PageTable::zero, zero_stub)]
    #[kani::stub(crate::addr::VirtAddr::as_mut_ptr, mmu_trap_as_mut_ptr)]
    fn c01_recursive_set_flags_p3_entry_4kib_p3_absent_up() {
        rec_set_flags_step!(Size4KiB, "4kib", "p3_absent", P3_ABSENT, IDX_UP, set_flags_p3_entry, "set_flags_p3_entry", 1);
        kani::cover!(true, "c01_recursive_set_flags_p3_entry_4kib_p3_absent_up: reachable");
    }

    //@ obligation C02 C02.recursive_set_flags_p3_entry_4kib.shape_p3_table.documented_outcome tier=thorough bounded="pool of 7 tables (4 path + 3 allocatable); tree-shaped sparse pre-state (target path, one neighbour word per path table, garbage in allocatable frames); recursive index 300; page-table indices (255,511,0,256)"
    //@ obligation C01 C01.recursive_set_flags_p3_entry_4kib.shape_p3_table.no_leaf_changes tier=thorough bounded="pool of 7 tables (4 path + 3 allocatable); tree-shaped sparse pre-state (target path, one neighbour word per path table, garbage in allocatable frames); recursive index 300; page-table indices (255,511,0,256)"
    //@ obligation C01 C01.recursive_set_flags_p3_entry_4kib.shape_p3_table.entry_flags_replaced_address_kept tier=thorough bounded="pool of 7 tables (4 path + 3 allocatable); tree-shaped sparse pre-state (target path, one neighbour word per path table, garbage in allocatable frames); recursive index 300; page-table indices (255,511,0,256)"
    //@ obligation C11 C11.recursive_set_flags_p3_entry_4kib.shape_p3_table.flush_all_token tier=thorough bounded="pool of 7 tables (4 path + 3 allocatable); tree-shaped sparse pre-state (target path, one neighbour word per path table, garbage in allocatable frames); recursive index 300; page-table indices (255,511,0,256)"
    //@ obligation C09 C09.recursive_set_flags_p3_entry_4kib.shape_p3_table.only_dictated_slots_change tier=thorough bounded="pool of 7 tables (4 path + 3 allocatable); tree-shaped sparse pre-state (target path, one neighbour word per path table, garbage in allocatable frames); recursive index 300; page-table indices (255,511,0,256)"
    //@ obligation C09 C09.recursive_set_flags_p3_entry_4kib.shape_p3_table.no_frames_requested_or_zeroed tier=thorough bounded="pool of 7 tables (4 path + 3 allocatable); tree-shaped sparse pre-state (target path, one neighbour word per path table, garbage in allocatable frames); recursive index 300; page-table indices (255,511,0,256)"
    //@ obligation C09 C09.recursive_set_flags_p3_entry_4kib.shape_p3_table.no_dangling_table_pointer tier=thorough bounded="pool of 7 tables (4 path + 3 allocatable); tree-shaped sparse pre-state (target path, one neighbour word per path table, garbage in allocatable frames); recursive index 300; page-table indices (255,511,0,256)"
    //@ obligation C09 C09.recursive_set_flags_p3_entry_4kib.shape_p3_table.no_access_outside_page_tables tier=thorough bounded="pool of 7 tables (4 path + 3 allocatable); tree-shaped sparse pre-state (target path, one neighbour word per path table, garbage in allocatable frames); recursive index 300; page-table indices (255,511,0,256)"
    //@ obligation C20 C20.recursive_set_flags_p3_entry_4kib.uses_recursive_addresses_of_the_page tier=thorough bounded="pool of 7 tables (4 path + 3 allocatable); tree-shaped sparse pre-state (target path, one neighbour word per path table, garbage in allocatable frames); recursive index 300; page-table indices (255,511,0,256)"
    #[kani::proof]
    #[kani::stub(crate::structures::paging::page_table::PageTable::zero, zero_stub)]
    #[kani::stub(crate::addr::VirtAddr::as_mut_ptr, mmu_trap_as_mut_ptr)]
    fn c01_recursive_set_flags_p3_entry_4kib_p3_table_mid() {
        rec_set_flags_step!(Size4KiB, "4kib", "p3_table", P2_ABSENT, IDX_MID, set_flags_p3_entry, "set_flags_p3_entry", 1);
        kani::cover!(true, "c01_recursive_set_flags_p3_entry_4kib_p3_table_mid: reachable");
    }

    //@ obligation C02 C02.recursive_set_flags_p3_entry_4kib.shape_p3_table.documented_outcome bounded="pool of 7 tables (4 path + 3 allocatable); tree-shaped sparse pre-state (target path, one neighbour word per path table, garbage in allocatable frames); recursive index 300; page-table indices (256,0,510,511)"
    //@ obligation C01 C01.recursive_set_flags_p3_entry_4kib.shape_p3_table.no_leaf_changes bounded="pool of 7 tables (4 path + 3 allocatable); tree-shaped sparse pre-state (target path, one neighbour word per path table, garbage in allocatable frames); recursive index 300; page-table indices (256,0,510,511)"
    //@ obligation C01 C01.recursive_set_flags_p3_entry_4kib.shape_p3_table.entry_flags_replaced_address_kept bounded="pool of 7 tables (4 path + 3 allocatable); tree-shaped sparse pre-state (target path, one neighbour word per path table, garbage in allocatable frames); recursive index 300; page-table indices (256,0,510,511)"
    //@ obligation C11 C11.recursive_set_flags_p3_entry_4kib.shape_p3_table.flush_all_token bounded="pool of 7 tables (4 path + 3 allocatable); tree-shaped sparse pre-state (target path, one neighbour word per path table, garbage in allocatable frames); recursive index 300; page-table indices (256,0,510,511)"
    //@ obligation C09 C09.recursive_set_flags_p3_entry_4kib.shape_p3_table.only_dictated_slots_change bounded="pool of 7 tables (4 path + 3 allocatable); tree-shaped sparse pre-state (target path, one neighbour word per path table, garbage in allocatable frames); recursive index 300; page-table indices (256,0,510,511)"
    //@ obligation C09 C09.recursive_set_flags_p3_entry_4kib.shape_p3_table.no_frames_requested_or_zeroed bounded="pool of 7 tables (4 path + 3 allocatable); tree-shaped sparse pre-state (target path, one neighbour word per path table, garbage in allocatable frames); recursive index 300; page-table indices (256,0,510,511)"
    //@ obligation C09 C09.recursive_set_flags_p3_entry_4kib.shape_p3_table.no_dangling_table_pointer bounded="pool of 7 tables (4 path + 3 allocatable); tree-shaped sparse pre-state (target path, one neighbour word per path table, garbage in allocatable frames); recursive index 300; page-table indices (256,0,510,511)"
    //@ obligation C09 C09.recursive_set_flags_p3_entry_4kib.shape_p3_table.no_access_outside_page_tables bounded="pool of 7 tables (4 path + 3 allocatable); tree-shaped sparse pre-state (target path, one neighbour word per path table, garbage in allocatable frames); recursive index 300; page-table indices (256,0,510,511)"
    //@ obligation C20 C20.recursive_set_flags_p3_entry_4kib.uses_recursive_addresses_of_the_page bounded="pool of 7 tables (4 path + 3 allocatable); tree-shaped sparse pre-state (target path, one neighbour word per path table, garbage in allocatable frames); recursive index 300; page-table indices (256,0,510,511)"
    #[kani::proof]
    #[kani::stub(crate::structures::paging::page_table::PageTable::zero, zero_stub)]
    #[kani::stub(crate::addr::VirtAddr::as_mut_ptr, mmu_trap_as_mut_ptr)]
    fn c01_recursive_set_flags_p3_entry_4kib_p3_table_up() {
        rec_set_flags_step!(Size4KiB, "4kib", "p3_table", P2_ABSENT, IDX_UP, set_flags_p3_entry, "set_flags_p3_entry", 1);
        kani::cover!(true, "c01_recursive_set_flags_p3_entry_4kib_p3_table_up: reachable");
    }

    //@ obligation C02 C02.recursive_set_flags_p3_entry_4kib.shape_huge_leaf.reports_parent_entry_huge_page_and_unchanged tier=thorough bounded="pool of 7 tables (4 path + 3 allocatable); tree-shaped sparse pre-state (target path, one neighbour word per path table, garbage in allocatable frames); recursive index 300; page-table indices (255,511,0,256)"
    //@ obligation C02 C02.recursive_set_flags_p3_entry_4kib.shape_huge_leaf.error_leaves_every_mapping tier=thorough bounded="pool of 7 tables (4 path + 3 allocatable); tree-shaped sparse pre-state (target path, one neighbour word per path table, garbage in allocatable frames); recursive index 300; page-table indices (255,511,0,256)"
    //@ obligation C09 C09.recursive_set_flags_p3_entry_4kib.shape_huge_leaf.only_dictated_slots_change tier=thorough bounded="pool of 7 tables (4 path + 3 allocatable); tree-shaped sparse pre-state (target path, one neighbour word per path table, garbage in allocatable frames); recursive index 300; page-table indices (255,511,0,256)"
    //@ obligation C09 C09.recursive_set_flags_p3_entry_4kib.shape_huge_leaf.no_frames_requested_or_zeroed tier=thorough bounded="pool of 7 tables (4 path + 3 allocatable); tree-shaped sparse pre-state (target path, one neighbour word per path table, garbage in allocatable frames); recursive index 300; page-table indices (255,511,0,256)"
    //@ obligation C09 C09.recursive_set_flags_p3_entry_4kib.shape_huge_leaf.no_dangling_table_pointer tier=thorough bounded="pool of 7 tables (4 path + 3 allocatable); tree-shaped sparse pre-state (target path, one neighbour word per path table, garbage in allocatable frames); recursive index 300; page-table indices (255,511,0,256)"
    //@ obligation C09 C09.recursive_set_flags_p3_entry_4kib.shape_huge_leaf.no_access_outside_page_tables tier=thorough bounded="pool of 7 tables (4 path + 3 allocatable); tree-shaped sparse pre-state (target path, one neighbour word per path table, garbage in allocatable frames); recursive index 300; page-table indices (255,511,0,256)"
    //@ obligation C20 C20.recursive_set_flags_p3_entry_4kib.uses_recursive_addresses_of_the_page tier=thorough bounded="pool of 7 tables (4 path + 3 allocatable); tree-shaped sparse pre-state (target path, one neighbour word per path table, garbage in allocatable frames); recursive index 300; page-table indices (255,511,0,256)"
    #[kani::proof]
    #[kani::stub(crate::structures::paging::page_table::PageTable::zero, zero_stub)]
    #[kani::stub(crate::addr::VirtAddr::as_mut_ptr, mmu_trap_as_mut_ptr)]
    fn c01_recursive_set_flags_p3_entry_4kib_huge_leaf_mid() {
        rec_set_flags_step!(Size4KiB, "4kib", "huge_leaf", P3_HUGE, IDX_MID, set_flags_p3_entry, "set_flags_p3_entry", 1);
        kani::cover!(true, "c01_recursive_set_flags_p3_entry_4kib_huge_leaf_mid: reachable");
    }

    //@ obligation C02 C02.recursive_set_flags_p3_entry_4kib.shape_huge_leaf.reports_parent_entry_huge_page_and_unchanged bounded="pool of 7 tables (4 path + 3 allocatable); tree-shaped sparse pre-state (target path, one neighbour word per path table, garbage in allocatable frames); recursive index 300; page-table indices (256,0,510,511)"
    //@ obligation C02 C02.recursive_set_flags_p3_entry_4kib.shape_huge_leaf.error_leaves_every_mapping bounded="pool of 7 tables (4 path + 3 allocatable); tree-shaped sparse pre-state (target path, one neighbour word per path table, garbage in allocatable frames); recursive index 300; page-table indices (256,0,510,511)"
    //@ obligation C09 C09.recursive_set_flags_p3_entry_4kib.shape_huge_leaf.only_dictated_slots_change bounded="pool of 7 tables (4 path + 3 allocatable); tree-shaped sparse pre-state (target path, one neighbour word per path table, garbage in allocatable frames); recursive index 300; page-table indices (256,0,510,511)"
    //@ obligation C09 C09.recursive_set_flags_p3_entry_4kib.shape_huge_leaf.no_frames_requested_or_zeroed bounded="pool of 7 tables (4 path + 3 allocatable); tree-shaped sparse pre-state (target path, one neighbour word per path table, garbage in allocatable frames); recursive index 300; page-table indices (256,0,510,511)"
    //@ obligation C09 C09.recursive_set_flags_p3_entry_4kib.shape_huge_leaf.no_dangling_table_pointer bounded="pool of 7 tables (4 path + 3 allocatable); tree-shaped sparse pre-state (target path, one neighbour word per path table, garbage in allocatable frames); recursive index 300; page-table indices (256,0,510,511)"
    //@ obligation C09 C09.recursive_set_flags_p3_entry_4kib.shape_huge_leaf.no_access_outside_page_tables bounded="pool of 7 tables (4 path + 3 allocatable); tree-shaped sparse pre-state (target path, one neighbour word per path table, garbage in allocatable frames); recursive index 300; page-table indices (256,0,510,511)"
    //@ obligation C20 C20.recursive_set_flags_p3_entry_4kib.uses_recursive_addresses_of_the_page bounded="pool of 7 tables (4 path + 3 allocatable); tree-shaped sparse pre-state (target path, one neighbour word per path table, garbage in allocatable frames); recursive index 300; page-table indices (256,0,510,511)"
    #[kani::proof]
    #[kani::stub(crate::structures::paging::page_table::PageTable::zero, zero_stub)]
    #[kani::stub(crate::addr::VirtAddr::as_mut_ptr, mmu_trap_as_mut_ptr)]
    fn c01_recursive_set_flags_p3_entry_4kib_huge_leaf_up() {
        rec_set_flags_step!(Size4KiB, "4kib", "huge_leaf", P3_HUGE, IDX_UP, set_flags_p3_entry, "set_flags_p3_entry", 1);
        kani::cover!(true, "c01_recursive_set_flags_p3_entry_4kib_huge_leaf_up: reachable");
    }

    //@ obligation C02 C02.recursive_set_flags_p2_entry_4kib.shape_p4_absent.documented_outcome tier=thorough bounded="pool of 7 tables (4 path + 3 allocatable); tree-shaped sparse pre-state (target path, one neighbour word per path table, garbage in allocatable frames); recursive index 300; page-table indices (255,511,0,256)"
    //@ obligation C02 C02.recursive_set_flags_p2_entry_4kib.shape_p4_absent.error_leaves_every_mapping tier=thorough bounded="pool of 7 tables (4 path + 3 allocatable); tree-shaped sparse pre-state (target path, one neighbour word per path table, garbage in allocatable frames); recursive index 300; page-table indices (255,511,0,256)"
    //@ obligation C09 C09.recursive_set_flags_p2_entry_4kib.shape_p4_absent.only_dictated_slots_change tier=thorough bounded="pool of 7 tables (4 path + 3 allocatable); tree-shaped sparse pre-state (target path, one neighbour word per path table, garbage in allocatable frames); recursive index 300; page-table indices (255,511,0,256)"
    //@ obligation C09 C09.recursive_set_flags_p2_entry_4kib.shape_p4_absent.no_frames_requested_or_zeroed tier=thorough bounded="pool of 7 tables (4 path + 3 allocatable); tree-shaped sparse pre-state (target path, one neighbour word per path table, garbage in allocatable frames); recursive index 300; page-table indices (255,511,0,256)"
    //@ obligation C09 C09.recursive_set_flags_p2_entry_4kib.shape_p4_absent.no_dangling_table_pointer tier=thorough bounded="pool of 7 tables (4 path + 3 allocatable); tree-shaped sparse pre-state (target path, one neighbour word per path table, garbage in allocatable frames); recursive index 300; page-table indices (255,511,0,256)"
    //@ obligation C09 C09.recursive_set_flags_p2_entry_4kib.shape_p4_absent.no_access_outside_page_tables tier=thorough bounded="pool of 7 tables (4 path + 3 allocatable); tree-shaped sparse pre-state (target path, one neighbour word per path table, garbage in allocatable frames); recursive index 300; page-table indices (255,511,0,256)"
    #[kani::proof]
    #[kani::stub(crate::structures::paging::page_table::PageTable::zero, zero_stub)]
    #[kani::stub(crate::addr::VirtAddr::as_mut_ptr, mmu_trap_as_mut_ptr)]
    fn c01_recursive_set_flags_p2_entry_4kib_p4_absent_mid() {
        rec_set_flags_step!(Size4KiB, "4kib", "p4_absent", P4_ABSENT, IDX_MID, set_flags_p2_entry, "set_flags_p2_entry", 2);
        kani::cover!(true, "c01_recursive_set_flags_p2_entry_4kib_p4_absent_mid: reachable");
    }

    //@ obligation C02 C02.recursive_set_flags_p2_entry_4kib.shape_p4_absent.documented_outcome bounded="pool of 7 tables (4 path + 3 allocatable); tree-shaped sparse pre-state (target path, one neighbour word per path table, garbage in allocatable frames); recursive index 300; page-table indices (256,0,510,511)"
    //@ obligation C02 C02.recursive_set_flags_p2_entry_4kib.shape_p4_absent.error_leaves_every_mapping bounded="pool of 7 tables (4 path + 3 allocatable); tree-shaped sparse pre-state (target path, one neighbour word per path table, garbage in allocatable frames); recursive index 300; page-table indices (256,0,510,511)"
    //@ obligation C09 C09.recursive_set_flags_p2_entry_4kib.shape_p4_absent.only_dictated_slots_change bounded="pool of 7 tables (4 path + 3 allocatable); tree-shaped sparse pre-state (target path, one neighbour word per path table, garbage in allocatable frames); recursive index 300; page-table indices (256,0,510,511)"
    //@ obligation C09 C09.recursive_set_flags_p2_entry_4kib.shape_p4_absent.no_frames_requested_or_zeroed bounded="pool of 7 tables (4 path + 3 allocatable); tree-shaped sparse pre-state (target path, one neighbour word per path table, garbage in allocatable frames); recursive index 300; page-table indices (256,0,510,511)"
    //@ obligation C09 C09.recursive_set_flags_p2_entry_4kib.shape_p4_absent.no_dangling_table_pointer bounded="pool of 7 tables (4 path + 3 allocatable); tree-shaped sparse pre-state (target path, one neighbour word per path table, garbage in allocatable frames); recursive index 300; page-table indices (256,0,510,511)"
    //@ obligation C09 C09.recursive_set_flags_p2_entry_4kib.shape_p4_absent.no_access_outside_page_tables bounded="pool of 7 tables (4 path + 3 allocatable); tree-shaped sparse pre-state (target path, one neighbour word per path table, garbage in allocatable frames); recursive index 300; page-table indices (256,0,510,511)"
    #[kani::proof]
    #[kani::stub(crate::structures::paging::page_table::PageTable::zero, zero_stub)]
    #[kani::stub(crate::addr::VirtAddr::as_mut_ptr, mmu_trap_as_mut_ptr)]
    fn c01_recursive_set_flags_p2_entry_4kib_p4_absent_up() {
        rec_set_flags_step!(Size4KiB, "4kib", "p4_absent", P4_ABSENT, IDX_UP, set_flags_p2_entry, "set_flags_p2_entry", 2);
        kani::cover!(true, "c01_recursive_set_flags_p2_entry_4kib_p4_absent_up: reachable");
    }

    //@ obligation C02 C02.recursive_set_flags_p2_entry_4kib.shape_p3_absent.documented_outcome tier=thorough bounded="pool of 7 tables (4 path + 3 allocatable); tree-shaped sparse pre-state (target path, one neighbour word per path table, garbage in allocatable frames); recursive index 300; page-table indices (255,511,0,256)"
    //@ obligation C02 C02.recursive_set_flags_p2_entry_4kib.shape_p3_absent.error_leaves_every_mapping tier=thorough bounded="pool of 7 tables (4 path + 3 allocatable); tree-shaped sparse pre-state (target path, one neighbour word per path table, garbage in allocatable frames); recursive index 300; page-table indices (255,511,0,256)"
    //@ obligation C09 C09.recursive_set_flags_p2_entry_4kib.shape_p3_absent.only_dictated_slots_change tier=thorough bounded="pool of 7 tables (4 path + 3 allocatable); tree-shaped sparse pre-state (target path, one neighbour word per path table, garbage in allocatable frames); recursive index 300; page-table indices (255,511,0,256)"
    //@ obligation C09 C09.recursive_set_flags_p2_entry_4kib.shape_p3_absent.no_frames_requested_or_zeroed tier=thorough bounded="pool of 7 tables (4 path + 3 allocatable); tree-shaped sparse pre-state (target path, one neighbour word per path table, garbage in allocatable frames); recursive index 300; page-table indices (255,511,0,256)"
    //@ obligation C09 C09.recursive_set_flags_p2_entry_4kib.shape_p3_absent.no_dangling_table_pointer tier=thorough bounded="pool of 7 tables (4 path + 3 allocatable); tree-shaped sparse pre-state (target path, one neighbour word per path table, garbage in allocatable frames); recursive index 300; page-table indices (255,511,0,256)"
    //@ obligation C09 C09.recursive_set_flags_p2_entry_4kib.shape_p3_absent.no_access_outside_page_tables tier=thorough bounded="pool of 7 tables (4 path + 3 allocatable); tree-shaped sparse pre-state (target path, one neighbour word per path table, garbage in allocatable frames); recursive index 300; page-table indices (255,511,0,256)"
    //@ obligation C20 C20.recursive_set_flags_p2_entry_4kib.uses_recursive_addresses_of_the_page tier=thorough bounded="pool of 7 tables (4 path + 3 allocatable); tree-shaped sparse pre-state (target path, one neighbour word per path table, garbage in allocatable frames); recursive index 300; page-table indices (255,511,0,256)"
    #[kani::proof]
    #[kani::stub(crate::structures::paging::page_table::PageTable::zero, zero_stub)]
    #[kani::stub(crate::addr::VirtAddr::as_mut_ptr, mmu_trap_as_mut_ptr)]
    fn c01_recursive_set_flags_p2_entry_4kib_p3_absent_mid() {
        rec_set_flags_step!(Size4KiB, "4kib", "p3_absent", P3_ABSENT, IDX_MID, set_flags_p2_entry, "set_flags_p2_entry", 2);
        kani::cover!(true, "c01_recursive_set_flags_p2_entry_4kib_p3_absent_mid: reachable");
    }

    //@ obligation C02 C02.recursive_set_flags_p2_entry_4kib.shape_p3_absent.documented_outcome bounded="pool of 7 tables (4 path + 3 allocatable); tree-shaped sparse pre-state (target path, one neighbour word per path table, garbage in allocatable frames); recursive index 300; page-table indices (256,0,510,511)"
    //@ obligation C02 C02.recursive_set_flags_p2_entry_4kib.shape_p3_absent.error_leaves_every_mapping bounded="pool of 7 tables (4 path + 3 allocatable); tree-shaped sparse pre-state (target path, one neighbour word per path table, garbage in allocatable frames); recursive index 300; page-table indices (256,0,510,511)"
    //@ obligation C09 C09.recursive_set_flags_p2_entry_4kib.shape_p3_absent.only_dictated_slots_change bounded="pool of 7 tables (4 path + 3 allocatable); tree-shaped sparse pre-state (target path, one neighbour word per path table, garbage in allocatable frames); recursive index 300; page-table indices (256,0,510,511)"
    //@ obligation C09 C09.recursive_set_flags_p2_entry_4kib.shape_p3_absent.no_frames_requested_or_zeroed bounded="pool of 7 tables (4 path + 3 allocatable); tree-shaped sparse pre-state (target path, one neighbour word per path table, garbage in allocatable frames); recursive index 300; page-table indices (256,0,510,511)"
    //@ obligation C09 C09.recursive_set_flags_p2_entry_4kib.shape_p3_absent.no_dangling_table_pointer bounded="pool of 7 tables (4 path + 3 allocatable); tree-shaped sparse pre-state (target path, one neighbour word per path table, garbage in allocatable frames); recursive index 300; page-table indices (256,0,510,511)"
    //@ obligation C09 C09.recursive_set_flags_p2_entry_4kib.shape_p3_absent.no_access_outside_page_tables bounded="pool of 7 tables (4 path + 3 allocatable); tree-shaped sparse pre-state (target path, one neighbour word per path table, garbage in allocatable frames); recursive index 300; page-table indices (256,0,510,511)"
    //@ obligation C20 C20.recursive_set_flags_p2_entry_4kib.uses_recursive_addresses_of_the_page bounded="pool of 7 tables (4 path + 3 allocatable); tree-shaped sparse pre-state (target path, one neighbour word per path table, garbage in allocatable frames); recursive index 300; page-table indices (256,0,510,511)"
    #[kani::proof]
    #[kani::stub(crate::structures::paging::page_table::PageTable::zero, zero_stub)]
    #[kani::stub(crate::addr::VirtAddr::as_mut_ptr, mmu_trap_as_mut_ptr)]
    fn c01_recursive_set_flags_p2_entry_4kib_p3_absent_up() {
        rec_set_flags_step!(Size4KiB, "4kib", "p3_absent", P3_ABSENT, IDX_UP, set_flags_p2_entry, "set_flags_p2_entry", 2);
        kani::cover!(true, "c01_recursive_set_flags_p2_entry_4kib_p3_absent_up: reachable");
    }

    //@ obligation C02 C02.recursive_set_flags_p2_entry_4kib.shape_p3_huge.huge_parent_is_reported_not_walked bounded="pool of 7 tables (4 path + 3 allocatable); tree-shaped sparse pre-state (target path, one neighbour word per path table, garbage in allocatable frames); recursive index 300; page-table indices (255,511,0,256)"
    //@ obligation C02 C02.recursive_set_flags_p2_entry_4kib.shape_p3_huge.documented_outcome bounded="pool of 7 tables (4 path + 3 allocatable); tree-shaped sparse pre-state (target path, one neighbour word per path table, garbage in allocatable frames); recursive index 300; page-table indices (255,511,0,256)"
    //@ obligation C02 C02.recursive_set_flags_p2_entry_4kib.shape_p3_huge.error_leaves_every_mapping bounded="pool of 7 tables (4 path + 3 allocatable); tree-shaped sparse pre-state (target path, one neighbour word per path table, garbage in allocatable frames); recursive index 300; page-table indices (255,511,0,256)"
    //@ obligation C09 C09.recursive_set_flags_p2_entry_4kib.shape_p3_huge.only_dictated_slots_change bounded="pool of 7 tables (4 path + 3 allocatable); tree-shaped sparse pre-state (target path, one neighbour word per path table, garbage in allocatable frames); recursive index 300; page-table indices (255,511,0,256)"
    //@ obligation C09 C09.recursive_set_flags_p2_entry_4kib.shape_p3_huge.no_frames_requested_or_zeroed bounded="pool of 7 tables (4 path + 3 allocatable); tree-shaped sparse pre-state (target path, one neighbour word per path table, garbage in allocatable frames); recursive index 300; page-table indices (255,511,0,256)"
    //@ obligation C09 C09.recursive_set_flags_p2_entry_4kib.shape_p3_huge.no_dangling_table_pointer bounded="pool of 7 tables (4 path + 3 allocatable); tree-shaped sparse pre-state (target path, one neighbour word per path table, garbage in allocatable frames); recursive index 300; page-table indices (255,511,0,256)"
    //@ obligation C09 C09.recursive_set_flags_p2_entry_4kib.shape_p3_huge.no_access_outside_page_tables bounded="pool of 7 tables (4 path + 3 allocatable); tree-shaped sparse pre-state (target path, one neighbour word per path table, garbage in allocatable frames); recursive index 300; page-table indices (255,511,0,256)"
    //@ obligation C20 C20.recursive_set_flags_p2_entry_4kib.uses_recursive_addresses_of_the_page bounded="pool of 7 tables (4 path + 3 allocatable); tree-shaped sparse pre-state (target path, one neighbour word per path table, garbage in allocatable frames); recursive index 300; page-table indices (255,511,0,256)"
    #[kani::proof]
    #[kani::stub(crate::structures::paging::page_table::PageTable::zero, zero_stub)]
    #[kani::stub(crate::addr::VirtAddr::as_mut_ptr, mmu_trap_as_mut_ptr)]
    fn c01_recursive_set_flags_p2_entry_4kib_p3_huge_mid() {
        rec_set_flags_step!(Size4KiB, "4kib", "p3_huge", P3_HUGE, IDX_MID, set_flags_p2_entry, "set_flags_p2_entry", 2);
        kani::cover!(true, "c01_recursive_set_flags_p2_entry_4kib_p3_huge_mid: reachable");
    }

    //@ obligation C02 C02.recursive_set_flags_p2_entry_4kib.shape_p3_huge.huge_parent_is_reported_not_walked tier=thorough bounded="pool of 7 tables (4 path + 3 allocatable); tree-shaped sparse pre-state (target path, one neighbour word per path table, garbage in allocatable frames); recursive index 300; page-table indices (256,0,510,511)"
    //@ obligation C02 C02.recursive_set_flags_p2_entry_4kib.shape_p3_huge.documented_outcome tier=thorough bounded="pool of 7 tables (4 path + 3 allocatable); tree-shaped sparse pre-state (target path, one neighbour word per path table, garbage in allocatable frames); recursive index 300; page-table indices (256,0,510,511)"
    //@ obligation C02 C02.recursive_set_flags_p2_entry_4kib.shape_p3_huge.error_leaves_every_mapping tier=thorough bounded="pool of 7 tables (4 path + 3 allocatable); tree-shaped sparse pre-state (target path, one neighbour word per path table, garbage in allocatable frames); recursive index 300; page-table indices (256,0,510,511)"
    //@ obligation C09 C09.recursive_set_flags_p2_entry_4kib.shape_p3_huge.only_dictated_slots_change tier=thorough bounded="pool of 7 tables (4 path + 3 allocatable); tree-shaped sparse pre-state (target path, one neighbour word per path table, garbage in allocatable frames); recursive index 300; page-table indices (256,0,510,511)"
    //@ obligation C09 C09.recursive_set_flags_p2_entry_4kib.shape_p3_huge.no_frames_requested_or_zeroed tier=thorough bounded="pool of 7 tables (4 path + 3 allocatable); tree-shaped sparse pre-state (target path, one neighbour word per path table, garbage in allocatable frames); recursive index 300; page-table indices (256,0,510,511)"
    //@ obligation C09 C09.recursive_set_flags_p2_entry_4kib.shape_p3_huge.no_dangling_table_pointer tier=thorough bounded="pool of 7 tables (4 path + 3 allocatable); tree-shaped sparse pre-state (target path, one neighbour word per path table, garbage in allocatable frames); recursive index 300; page-table indices (256,0,510,511)"
    //@ obligation C09 C09.recursive_set_flags_p2_entry_4kib.shape_p3_huge.no_access_outside_page_tables tier=thorough bounded="pool of 7 tables (4 path + 3 allocatable); tree-shaped sparse pre-state (target path, one neighbour word per path table, garbage in allocatable frames); recursive index 300; page-table indices (256,0,510,511)"
    //@ obligation C20 C20.recursive_set_flags_p2_entry_4kib.uses_recursive_addresses_of_the_page tier=thorough bounded="pool of 7 tables (4 path + 3 allocatable); tree-shaped sparse pre-state (target path, one neighbour word per path table, garbage in allocatable frames); recursive index 300; page-table indices (256,0,510,511)"
    #[kani::proof]
    #[kani::stub(crate::structures::paging::page_table::PageTable::zero, zero_stub)]
    #[kani::stub(crate::addr::VirtAddr::as_mut_ptr, mmu_trap_as_mut_ptr)]
    fn c01_recursive_set_flags_p2_entry_4kib_p3_huge_up() {
        rec_set_flags_step!(Size4KiB, "4kib", "p3_huge", P3_HUGE, IDX_UP, set_flags_p2_entry, "set_flags_p2_entry", 2);
        kani::cover!(true, "c01_recursive_set_flags_p2_entry_4kib_p3_huge_up: reachable");
    }

    //@ obligation C02 C02.recursive_set_flags_p2_entry_4kib.shape_p2_absent.documented_outcome tier=thorough bounded="pool of 7 tables (4 path + 3 allocatable); tree-shaped sparse pre-state (target path, one neighbour word per path table, garbage in allocatable frames); recursive index 300; page-table indices (255,511,0,256)"
    //@ obligation C02 C02.recursive_set_flags_p2_entry_4kib.shape_p2_absent.error_leaves_every_mapping tier=thorough bounded="pool of 7 tables (4 path + 3 allocatable); tree-shaped sparse pre-state (target path, one neighbour word per path table, garbage in allocatable frames); recursive index 300; page-table indices (255,511,0,256)"
    //@ obligation C09 C09.recursive_set_flags_p2_entry_4kib.shape_p2_absent.only_dictated_slots_change tier=thorough bounded="pool of 7 tables (4 path + 3 allocatable); tree-shaped sparse pre-state (target path, one neighbour word per path table, garbage in allocatable frames); recursive index 300; page-table indices (255,511,0,256)"
    //@ obligation C09 C09.recursive_set_flags_p2_entry_4kib.shape_p2_absent.no_frames_requested_or_zeroed tier=thorough bounded="pool of 7 tables (4 path + 3 allocatable); tree-shaped sparse pre-state (target path, one neighbour word per path table, garbage in allocatable frames); recursive index 300; page-table indices (255,511,0,256)"
    //@ obligation C09 C09.recursive_set_flags_p2_entry_4kib.shape_p2_absent.no_dangling_table_pointer tier=thorough bounded="pool of 7 tables (4 path + 3 allocatable); tree-shaped sparse pre-state (target path, one neighbour word per path table, garbage in allocatable frames); recursive index 300; page-table indices (255,511,0,256)"
    //@ obligation C09 C09.recursive_set_flags_p2_entry_4kib.shape_p2_absent.no_access_outside_page_tables tier=thorough bounded="pool of 7 tables (4 path + 3 allocatable); tree-shaped sparse pre-state (target path, one neighbour word per path table, garbage in allocatable frames); recursive index 300; page-table indices (255,511,0,256)"
    //@ obligation C20 C20.recursive_set_flags_p2_entry_4kib.uses_recursive_addresses_of_the_page tier=thorough bounded="pool of 7 tables (4 path + 3 allocatable); tree-shaped sparse pre-state (target path, one neighbour word per path table, garbage in allocatable frames); recursive index 300; page-table indices (255,511,0,256)"
    #[kani::proof]
    #[kani::stub(crate::structures::paging::page_table::PageTable::zero, zero_stub)]
    #[kani::stub(crate::addr::VirtAddr::as_mut_ptr, mmu_trap_as_mut_ptr)]
    fn c01_recursive_set_flags_p2_entry_4kib_p2_absent_mid() {
        rec_set_flags_step!(Size4KiB, "4kib", "p2_absent", P2_ABSENT, IDX_MID, set_flags_p2_entry, "set_flags_p2_entry", 2);
        kani::cover!(true, "c01_recursive_set_flags_p2_entry_4kib_p2_absent_mid: reachable");
    }

    //@ obligation C02 C02.recursive_set_flags_p2_entry_4kib.shape_p2_absent.documented_outcome bounded="pool of 7 tables (4 path + 3 allocatable); tree-shaped sparse pre-state (target path, one neighbour word per path table, garbage in allocatable frames); recursive index 300; page-table indices (256,0,510,511)"
    //@ obligation C02 C02.recursive_set_flags_p2_entry_4kib.shape_p2_absent.error_leaves_every_mapping bounded="pool of 7 tables (4 path + 3 allocatable); tree-shaped sparse pre-state (target path, one neighbour word per path table, garbage in allocatable frames); recursive index 300; page-table indices (256,0,510,511)"
    //@ obligation C09 C09.recursive_set_flags_p2_entry_4kib.shape_p2_absent.only_dictated_slots_change bounded="pool of 7 tables (4 path + 3 allocatable); tree-shaped sparse pre-state (target path, one neighbour word per path table, garbage in allocatable frames); recursive index 300; page-table indices (256,0,510,511)"
    //@ obligation C09 C09.recursive_set_flags_p2_entry_4kib.shape_p2_absent.no_frames_requested_or_zeroed bounded="pool of 7 tables (4 path + 3 allocatable); tree-shaped sparse pre-state (target path, one neighbour word per path table, garbage in allocatable frames); recursive index 300; page-table indices (256,0,510,511)"
    //@ obligation C09 C09.recursive_set_flags_p2_entry_4kib.shape_p2_absent.no_dangling_table_pointer bounded="pool of 7 tables (4 path + 3 allocatable); tree-shaped sparse pre-state (target path, one neighbour word per path table, garbage in allocatable frames); recursive index 300; page-table indices (256,0,510,511)"
    //@ obligation C09 C09.recursive_set_flags_p2_entry_4kib.shape_p2_absent.no_access_outside_page_tables bounded="pool of 7 tables (4 path + 3 allocatable); tree-shaped sparse pre-state (target path, one neighbour word per path table, garbage in allocatable frames); recursive index 300; page-table indices (256,0,510,511)"
    //@ obligation C20 C20.recursive_set_flags_p2_entry_4kib.uses_recursive_addresses_of_the_page bounded="pool of 7 tables (4 path + 3 allocatable); tree-shaped sparse pre-state (target path, one neighbour word per path table, garbage in allocatable frames); recursive index 300; page-table indices (256,0,510,511)"
    #[kani::proof]
    #[kani::stub(crate::structures::paging::page_table::PageTable::zero, zero_stub)]
    #[kani::stub(crate::addr::VirtAddr::as_mut_ptr, mmu_trap_as_mut_ptr)]
    fn c01_recursive_set_flags_p2_entry_4kib_p2_absent_up() {
        rec_set_flags_step!(Size4KiB, "4kib", "p2_absent", P2_ABSENT, IDX_UP, set_flags_p2_entry, "set_flags_p2_entry", 2);
        kani::cover!(true, "c01_recursive_set_flags_p2_entry_4kib_p2_absent_up: reachable");
    }

    //@ obligation C02 C02.recursive_set_flags_p2_entry_4kib.shape_p2_table.documented_outcome bounded="pool of 7 tables (4 path + 3 allocatable); tree-shaped sparse pre-state (target path, one neighbour word per path table, garbage in allocatable frames); recursive index 300; page-table indices (255,511,0,256)"
    //@ obligation C01 C01.recursive_set_flags_p2_entry_4kib.shape_p2_table.no_leaf_changes bounded="pool of 7 tables (4 path + 3 allocatable); tree-shaped sparse pre-state (target path, one neighbour word per path table, garbage in allocatable frames); recursive index 300; page-table indices (255,511,0,256)"
    //@ obligation C01 C01.recursive_set_flags_p2_entry_4kib.shape_p2_table.entry_flags_replaced_address_kept bounded="pool of 7 tables (4 path + 3 allocatable); tree-shaped sparse pre-state (target path, one neighbour word per path table, garbage in allocatable frames); recursive index 300; page-table indices (255,511,0,256)"
    //@ obligation C11 C11.recursive_set_flags_p2_entry_4kib.shape_p2_table.flush_all_token bounded="pool of 7 tables (4 path + 3 allocatable); tree-shaped sparse pre-state (target path, one neighbour word per path table, garbage in allocatable frames); recursive index 300; page-table indices (255,511,0,256)"
    //@ obligation C09 C09.recursive_set_flags_p2_entry_4kib.shape_p2_table.only_dictated_slots_change bounded="pool of 7 tables (4 path + 3 allocatable); tree-shaped sparse pre-state (target path, one neighbour word per path table, garbage in allocatable frames); recursive index 300; page-table indices (255,511,0,256)"
    //@ obligation C09 C09.recursive_set_flags_p2_entry_4kib.shape_p2_table.no_frames_requested_or_zeroed bounded="pool of 7 tables (4 path + 3 allocatable); tree-shaped sparse pre-state (target path, one neighbour word per path table, garbage in allocatable frames); recursive index 300; page-table indices (255,511,0,256)"
    //@ obligation C09 C09.recursive_set_flags_p2_entry_4kib.shape_p2_table.no_dangling_table_pointer bounded="pool of 7 tables (4 path + 3 allocatable); tree-shaped sparse pre-state (target path, one neighbour word per path table, garbage in allocatable frames); recursive index 300; page-table indices (255,511,0,256)"
    //@ obligation C09 C09.recursive_set_flags_p2_entry_4kib.shape_p2_table.no_access_outside_page_tables bounded="pool of 7 tables (4 path + 3 allocatable); tree-shaped sparse pre-state (target path, one neighbour word per path table, garbage in allocatable frames); recursive index 300; page-table indices (255,511,0,256)"
    //@ obligation C20 C20.recursive_set_flags_p2_entry_4kib.uses_recursive_addresses_of_the_page bounded="pool of 7 tables (4 path + 3 allocatable); tree-shaped sparse pre-state (target path, one neighbour word per path table, garbage in allocatable frames); recursive index 300; page-table indices (255,511,0,256)"
    #[kani::proof]
    #[kani::stub(crate::structures::paging::page_table::PageTable::zero, zero_stub)]
    #[kani::stub(crate::addr::VirtAddr::as_mut_ptr, mmu_trap_as_mut_ptr)]
    fn c01_recursive_set_flags_p2_entry_4kib_p2_table_mid() {
        rec_set_flags_step!(Size4KiB, "4kib", "p2_table", P1_ABSENT, IDX_MID, set_flags_p2_entry, "set_flags_p2_entry", 2);
        kani::cover!(true, "c01_recursive_set_flags_p2_entry_4kib_p2_table_mid: reachable");
    }

    //@ obligation C02 C02.recursive_set_flags_p2_entry_4kib.shape_p2_table.documented_outcome tier=thorough bounded="pool of 7 tables (4 path + 3 allocatable); tree-shaped sparse pre-state (target path, one neighbour word per path table, garbage in allocatable frames); recursive index 300; page-table indices (256,0,510,511)"
    //@ obligation C01 C01.recursive_set_flags_p2_entry_4kib.shape_p2_table.no_leaf_changes tier=thorough bounded="pool of 7 tables (4 path + 3 allocatable); tree-shaped sparse pre-state (target path, one neighbour word per path table, garbage in allocatable frames); recursive index 300; page-table indices (256,0,510,511)"
    //@ obligation C01 C01.recursive_set_flags_p2_entry_4kib.shape_p2_table.entry_flags_replaced_address_kept tier=thorough bounded="pool of 7 tables (4 path + 3 allocatable); tree-shaped sparse pre-state (target path, one neighbour word per path table, garbage in allocatable frames); recursive index 300; page-table indices (256,0,510,511)"
    //@ obligation C11 C11.recursive_set_flags_p2_entry_4kib.shape_p2_table.flush_all_token tier=thorough bounded="pool of 7 tables (4 path + 3 allocatable); tree-shaped sparse pre-state (target path, one neighbour word per path table, garbage in allocatable frames); recursive index 300; page-table indices (256,0,510,511)"
    //@ obligation C09 C09.recursive_set_flags_p2_entry_4kib.shape_p2_table.only_dictated_slots_change tier=thorough bounded="pool of 7 tables (4 path + 3 allocatable); tree-shaped sparse pre-state (target path, one neighbour word per path table, garbage in allocatable frames); recursive index 300; page-table indices (256,0,510,511)"
    //@ obligation C09 C09.recursive_set_flags_p2_entry_4kib.shape_p2_table.no_frames_requested_or_zeroed tier=thorough bounded="pool of 7 tables (4 path + 3 allocatable); tree-shaped sparse pre-state (target path, one neighbour word per path table, garbage in allocatable frames); recursive index 300; page-table indices (256,0,510,511)"
    //@ obligation C09 C09.recursive_set_flags_p2_entry_4kib.shape_p2_table.no_dangling_table_pointer tier=thorough bounded="pool of 7 tables (4 path + 3 allocatable); tree-shaped sparse pre-state (target path, one neighbour word per path table, garbage in allocatable frames); recursive index 300; page-table indices (256,0,510,511)"
    //@ obligation C09 C09.recursive_set_flags_p2_entry_4kib.shape_p2_table.no_access_outside_page_tables tier=thorough bounded="pool of 7 tables (4 path + 3 allocatable); tree-shaped sparse pre-state (target path, one neighbour word per path table, garbage in allocatable frames); recursive index 300; page-table indices (256,0,510,511)"
    //@ obligation C20 C20.recursive_set_flags_p2_entry_4kib.uses_recursive_addresses_of_the_page tier=thorough bounded="pool of 7 tables (4 path + 3 allocatable); tree-shaped sparse pre-state (target path, one neighbour word per path table, garbage in allocatable frames); recursive index 300; page-table indices (256,0,510,511)"
    #[kani::proof]
    #[kani::stub(crate::structures::paging::page_table::PageTable::zero, zero_stub)]
    #[kani::stub(crate::addr::VirtAddr::as_mut_ptr, mmu_trap_as_mut_ptr)]
    fn c01_recursive_set_flags_p2_entry_4kib_p2_table_up() {
        rec_set_flags_step!(Size4KiB, "4kib", "p2_table", P1_ABSENT, IDX_UP, set_flags_p2_entry, "set_flags_p2_entry", 2);
        kani::cover!(true, "c01_recursive_set_flags_p2_entry_4kib_p2_table_up: reachable");
    }

    //@ obligation C02 C02.recursive_set_flags_p2_entry_4kib.shape_huge_leaf.reports_parent_entry_huge_page_and_unchanged bounded="pool of 7 tables (4 path + 3 allocatable); tree-shaped sparse pre-state (target path, one neighbour word per path table, garbage in allocatable frames); recursive index 300; page-table indices (255,511,0,256)"
    //@ obligation C02 C02.recursive_set_flags_p2_entry_4kib.shape_huge_leaf.error_leaves_every_mapping bounded="pool of 7 tables (4 path + 3 allocatable); tree-shaped sparse pre-state (target path, one neighbour word per path table, garbage in allocatable frames); recursive index 300; page-table indices (255,511,0,256)"
    //@ obligation C09 C09.recursive_set_flags_p2_entry_4kib.shape_huge_leaf.only_dictated_slots_change bounded="pool of 7 tables (4 path + 3 allocatable); tree-shaped sparse pre-state (target path, one neighbour word per path table, garbage in allocatable frames); recursive index 300; page-table indices (255,511,0,256)"
    //@ obligation C09 C09.recursive_set_flags_p2_entry_4kib.shape_huge_leaf.no_frames_requested_or_zeroed bounded="pool of 7 tables (4 path + 3 allocatable); tree-shaped sparse pre-state (target path, one neighbour word per path table, garbage in allocatable frames); recursive index 300; page-table indices (255,511,0,256)"
    //@ obligation C09 C09.recursive_set_flags_p2_entry_4kib.shape_huge_leaf.no_dangling_table_pointer bounded="pool of 7 tables (4 path + 3 allocatable); tree-shaped sparse pre-state (target path, one neighbour word per path table, garbage in allocatable frames); recursive index 300; page-table indices (255,511,0,256)"
    //@ obligation C09 C09.recursive_set_flags_p2_entry_4kib.shape_huge_leaf.no_access_outside_page_tables bounded="pool of 7 tables (4 path + 3 allocatable); tree-shaped sparse pre-state (target path, one neighbour word per path table, garbage in allocatable frames); recursive index 300; page-table indices (255,511,0,256)"
    //@ obligation C20 C20.recursive_set_flags_p2_entry_4kib.uses_recursive_addresses_of_the_page bounded="pool of 7 tables (4 path + 3 allocatable); tree-shaped sparse pre-state (target path, one neighbour word per path table, garbage in allocatable frames); recursive index 300; page-table indices (255,511,0,256)"
    #[kani::proof]
    #[kani::stub(crate::structures::paging::page_table::PageTable::zero, zero_stub)]
    #[kani::stub(crate::addr::VirtAddr::as_mut_ptr, mmu_trap_as_mut_ptr)]
    fn c01_recursive_set_flags_p2_entry_4kib_huge_leaf_mid() {
        rec_set_flags_step!(Size4KiB, "4kib", "huge_leaf", P2_HUGE, IDX_MID, set_flags_p2_entry, "set_flags_p2_entry", 2);
        kani::cover!(true, "c01_recursive_set_flags_p2_entry_4kib_huge_leaf_mid: reachable");
    }

    //@ obligation C02 C02.recursive_set_flags_p2_entry_4kib.shape_huge_leaf.reports_parent_entry_huge_page_and_unchanged tier=thorough bounded="pool of 7 tables (4 path + 3 allocatable); tree-shaped sparse pre-state (target path, one neighbour word per path table, garbage in allocatable frames); recursive index 300; page-table indices (256,0,510,511)"
    //@ obligation C02 C02.recursive_set_flags_p2_entry_4kib.shape_huge_leaf.error_leaves_every_mapping tier=thorough bounded="pool of 7 tables (4 path + 3 allocatable); tree-shaped sparse pre-state (target path, one neighbour word per path table, garbage in allocatable frames); recursive index 300; page-table indices (256,0,510,511)"
    //@ obligation C09 C09.recursive_set_flags_p2_entry_4kib.shape_huge_leaf.only_dictated_slots_change tier=thorough bounded="pool of 7 tables (4 path + 3 allocatable); tree-shaped sparse pre-state (target path, one neighbour word per path table, garbage in allocatable frames); recursive index 300; page-table indices (256,0,510,511)"
    //@ obligation C09 C09.recursive_set_flags_p2_entry_4kib.shape_huge_leaf.no_frames_requested_or_zeroed tier=thorough bounded="pool of 7 tables (4 path + 3 allocatable); tree-shaped sparse pre-state (target path, one neighbour word per path table, garbage in allocatable frames); recursive index 300; page-table indices (256,0,510,511)"
    //@ obligation C09 C09.recursive_set_flags_p2_entry_4kib.shape_huge_leaf.no_dangling_table_pointer tier=thorough bounded="pool of 7 tables (4 path + 3 allocatable); tree-shaped sparse pre-state (target path, one neighbour word per path table, garbage in allocatable frames); recursive index 300; page-table indices (256,0,510,511)"
    //@ obligation C09 C09.recursive_set_flags_p2_entry_4kib.shape_huge_leaf.no_access_outside_page_tables tier=thorough bounded="pool of 7 tables (4 path + 3 allocatable); tree-shaped sparse pre-state (target path, one neighbour word per path table, garbage in allocatable frames); recursive index 300; page-table indices (256,0,510,511)"
    //@ obligation C20 C20.recursive_set_flags_p2_entry_4kib.uses_recursive_addresses_of_the_page tier=thorough bounded="pool of 7 tables (4 path + 3 allocatable); tree-shaped sparse pre-state (target path, one neighbour word per path table, garbage in allocatable frames); recursive index 300; page-table indices (256,0,510,511)"
    #[kani::proof]
    #[kani::stub(crate::structures::paging::page_table::PageTable::zero, zero_stub)]
    #[kani::stub(crate::addr::VirtAddr::as_mut_ptr, mmu_trap_as_mut_ptr)]
    fn c01_recursive_set_flags_p2_entry_4kib_huge_leaf_up() {
        rec_set_flags_step!(Size4KiB, "4kib", "huge_leaf", P2_HUGE, IDX_UP, set_flags_p2_entry, "set_flags_p2_entry", 2);
        kani::cover!(true, "c01_recursive_set_flags_p2_entry_4kib_huge_leaf_up: reachable");
    }

    //@ obligation C02 C02.recursive_set_flags_p4_entry_2mib.shape_p4_absent.documented_outcome bounded="pool of 7 tables (4 path + 3 allocatable); tree-shaped sparse pre-state (target path, one neighbour word per path table, garbage in allocatable frames); recursive index 300; page-table indices (255,511,0,256)"
    //@ obligation C02 C02.recursive_set_flags_p4_entry_2mib.shape_p4_absent.error_leaves_every_mapping bounded="pool of 7 tables (4 path + 3 allocatable); tree-shaped sparse pre-state (target path, one neighbour word per path table, garbage in allocatable frames); recursive index 300; page-table indices (255,511,0,256)"
    //@ obligation C09 C09.recursive_set_flags_p4_entry_2mib.shape_p4_absent.only_dictated_slots_change bounded="pool of 7 tables (4 path + 3 allocatable); tree-shaped sparse pre-state (target path, one neighbour word per path table, garbage in allocatable frames); recursive index 300; page-table indices (255,511,0,256)"
    //@ obligation C09 C09.recursive_set_flags_p4_entry_2mib.shape_p4_absent.no_frames_requested_or_zeroed bounded="pool of 7 tables (4 path + 3 allocatable); tree-shaped sparse pre-state (target path, one neighbour word per path table, garbage in allocatable frames); recursive index 300; page-table indices (255,511,0,256)"
    //@ obligation C09 C09.recursive_set_flags_p4_entry_2mib.shape_p4_absent.no_dangling_table_pointer bounded="pool of 7 tables (4 path + 3 allocatable); tree-shaped sparse pre-state (target path, one neighbour word per path table, garbage in allocatable frames); recursive index 300; page-table indices (255,511,0,256)"
    //@ obligation C09 C09.recursive_set_flags_p4_entry_2mib.shape_p4_absent.no_access_outside_page_tables bounded="pool of 7 tables (4 path + 3 allocatable); tree-shaped sparse pre-state (target path, one neighbour word per path table, garbage in allocatable frames); recursive index 300; page-table indices (255,511,0,256)"
    #[kani::proof]
    #[kani::stub(crate::structures::paging::page_table::PageTable::zero, zero_stub)]
    #[kani::stub(crate::addr::VirtAddr::as_mut_ptr, mmu_trap_as_mut_ptr)]
    fn c01_recursive_set_flags_p4_entry_2mib_p4_absent_mid() {
        rec_set_flags_step!(Size2MiB, "2mib", "p4_absent", P4_ABSENT, IDX_MID, set_flags_p4_entry, "set_flags_p4_entry", 0);
        kani::cover!(true, "c01_recursive_set_flags_p4_entry_2mib_p4_absent_mid: reachable");
    }

    //@ obligation C02 C02.recursive_set_flags_p4_entry_2mib.shape_p4_absent.documented_outcome tier=thorough bounded="pool of 7 tables (4 path + 3 allocatable); tree-shaped sparse pre-state (target path, one neighbour word per path table, garbage in allocatable frames); recursive index 300; page-table indices (256,0,510,511)"
    //@ obligation C02 C02.recursive_set_flags_p4_entry_2mib.shape_p4_absent.error_leaves_every_mapping tier=thorough bounded="pool of 7 tables (4 path + 3 allocatable); tree-shaped sparse pre-state (target path, one neighbour word per path table, garbage in allocatable frames); recursive index 300; page-table indices (256,0,510,511)"
    //@ obligation C09 C09.recursive_set_flags_p4_entry_2mib.shape_p4_absent.only_dictated_slots_change tier=thorough bounded="pool of 7 tables (4 path + 3 allocatable); tree-shaped sparse pre-state (target path, one neighbour word per path table, garbage in allocatable frames); recursive index 300; page-table indices (256,0,510,511)"
    //@ obligation C09 C09.recursive_set_flags_p4_entry_2mib.shape_p4_absent.no_frames_requested_or_zeroed tier=thorough bounded="pool of 7 tables (4 path + 3 allocatable); tree-shaped sparse pre-state (target path, one neighbour word per path table, garbage in allocatable frames); recursive index 300; page-table indices (256,0,510,511)"
    //@ obligation C09 C09.recursive_set_flags_p4_entry_2mib.shape_p4_absent.no_dangling_table_pointer tier=thorough bounded="pool of 7 tables (4 path + 3 allocatable); tree-shaped sparse pre-state (target path, one neighbour word per path table, garbage in allocatable frames); recursive index 300; page-table indices (256,0,510,511)"
    //@ obligation C09 C09.recursive_set_flags_p4_entry_2mib.shape_p4_absent.no_access_outside_page_tables tier=thorough bounded="pool of 7 tables (4 path + 3 allocatable); tree-shaped sparse pre-state (target path, one neighbour word per path table, garbage in allocatable frames); recursive index 300; page-table indices (256,0,510,511)"
    #[kani::proof]
    #[kani::stub(crate::structures::paging::page_table::PageTable::zero, zero_stub)]
    #[kani::stub(crate::addr::VirtAddr::as_mut_ptr, mmu_trap_as_mut_ptr)]
    fn c01_recursive_set_flags_p4_entry_2mib_p4_absent_up() {
        rec_set_flags_step!(Size2MiB, "2mib", "p4_absent", P4_ABSENT, IDX_UP, set_flags_p4_entry, "set_flags_p4_entry", 0);
        kani::cover!(true, "c01_recursive_set_flags_p4_entry_2mib_p4_absent_up: reachable");
    }

    //@ obligation C02 C02.recursive_set_flags_p4_entry_2mib.shape_p4_table.documented_outcome bounded="pool of 7 tables (4 path + 3 allocatable); tree-shaped sparse pre-state (target path, one neighbour word per path table, garbage in allocatable frames); recursive index 300; page-table indices (255,511,0,256)"
    //@ obligation C01 C01.recursive_set_flags_p4_entry_2mib.shape_p4_table.no_leaf_changes bounded="pool of 7 tables (4 path + 3 allocatable); tree-shaped sparse pre-state (target path, one neighbour word per path table, garbage in allocatable frames); recursive index 300; page-table indices (255,511,0,256)"
    //@ obligation C01 C01.recursive_set_flags_p4_entry_2mib.shape_p4_table.entry_flags_replaced_address_kept bounded="pool of 7 tables (4 path + 3 allocatable); tree-shaped sparse pre-state (target path, one neighbour word per path table, garbage in allocatable frames); recursive index 300; page-table indices (255,511,0,256)"
    //@ obligation C11 C11.recursive_set_flags_p4_entry_2mib.shape_p4_table.flush_all_token bounded="pool of 7 tables (4 path + 3 allocatable); tree-shaped sparse pre-state (target path, one neighbour word per path table, garbage in allocatable frames); recursive index 300; page-table indices (255,511,0,256)"
    //@ obligation C09 C09.recursive_set_flags_p4_entry_2mib.shape_p4_table.only_dictated_slots_change bounded="pool of 7 tables (4 path + 3 allocatable); tree-shaped sparse pre-state (target path, one neighbour word per path table, garbage in allocatable frames); recursive index 300; page-table indices (255,511,0,256)"
    //@ obligation C09 C09.recursive_set_flags_p4_entry_2mib.shape_p4_table.no_frames_requested_or_zeroed bounded="pool of 7 tables (4 path + 3 allocatable); tree-shaped sparse pre-state (target path, one neighbour word per path table, garbage in allocatable frames); recursive index 300; page-table indices (255,511,0,256)"
    //@ obligation C09 C09.recursive_set_flags_p4_entry_2mib.shape_p4_table.no_dangling_table_pointer bounded="pool of 7 tables (4 path + 3 allocatable); tree-shaped sparse pre-state (target path, one neighbour word per path table, garbage in allocatable frames); recursive index 300; page-table indices (255,511,0,256)"
    //@ obligation C09 C09.recursive_set_flags_p4_entry_2mib.shape_p4_table.no_access_outside_page_tables bounded="pool of 7 tables (4 path + 3 allocatable); tree-shaped sparse pre-state (target path, one neighbour word per path table, garbage in allocatable frames); recursive index 300; page-table indices (255,511,0,256)"
    #[kani::proof]
    #[kani::stub(crate::structures::paging::page_table::PageTable::zero, zero_stub)]
    #[kani::stub(crate::addr::VirtAddr::as_mut_ptr, mmu_trap_as_mut_ptr)]
    fn c01_recursive_set_flags_p4_entry_2mib_p4_table_mid() {
        rec_set_flags_step!(Size2MiB, "2mib", "p4_table", P3_ABSENT, IDX_MID, set_flags_p4_entry, "set_flags_p4_entry", 0);
        kani::cover!(true, "c01_recursive_set_flags_p4_entry_2mib_p4_table_mid: reachable");
    }

    //@ obligation C02 C02.recursive_set_flags_p4_entry_2mib.shape_p4_table.documented_outcome tier=thorough bounded="pool of 7 tables (4 path + 3 allocatable); tree-shaped sparse pre-state (target path, one neighbour word per path table, garbage in allocatable frames); recursive index 300; page-table indices (256,0,510,511)"
    //@ obligation C01 C01.recursive_set_flags_p4_entry_2mib.shape_p4_table.no_leaf_changes tier=thorough bounded="pool of 7 tables (4 path + 3 allocatable); tree-shaped sparse pre-state (target path, one neighbour word per path table, garbage in allocatable frames); recursive index 300; page-table indices (256,0,510,511)"
    //@ obligation C01 C01.recursive_set_flags_p4_entry_2mib.shape_p4_table.entry_flags_replaced_address_kept tier=thorough bounded="pool of 7 tables (4 path + 3 allocatable); tree-shaped sparse pre-state (target path, one neighbour word per path table, garbage in allocatable frames); recursive index 300; page-table indices (256,0,510,511)"
    //@ obligation C11 C11.recursive_set_flags_p4_entry_2mib.shape_p4_table.flush_all_token tier=thorough bounded="pool of 7 tables (4 path + 3 allocatable); tree-shaped sparse pre-state (target path, one neighbour word per path table, garbage in allocatable frames); recursive index 300; page-table indices (256,0,510,511)"
    //@ obligation C09 C09.recursive_set_flags_p4_entry_2mib.shape_p4_table.only_dictated_slots_change tier=thorough bounded="pool of 7 tables (4 path + 3 allocatable); tree-shaped sparse pre-state (target path, one neighbour word per path table, garbage in allocatable frames); recursive index 300; page-table indices (256,0,510,511)"
    //@ obligation C09 C09.recursive_set_flags_p4_entry_2mib.shape_p4_table.no_frames_requested_or_zeroed tier=thorough bounded="pool of 7 tables (4 path + 3 allocatable); tree-shaped sparse pre-state (target path, one neighbour word per path table, garbage in allocatable frames); recursive index 300; page-table indices (256,0,510,511)"
    //@ obligation C09 C09.recursive_set_flags_p4_entry_2mib.shape_p4_table.no_dangling_table_pointer tier=thorough bounded="pool of 7 tables (4 path + 3 allocatable); tree-shaped sparse pre-state (target path, one neighbour word per path table, garbage in allocatable frames); recursive index 300; page-table indices (256,0,510,511)"
    //@ obligation C09 C09.recursive_set_flags_p4_entry_2mib.shape_p4_table.no_access_outside_page_tables tier=thorough bounded="pool of 7 tables (4 path + 3 allocatable); tree-shaped sparse pre-state (target path, one neighbour word per path table, garbage in allocatable frames); recursive index 300; page-table indices (256,0,510,511)"
    #[kani::proof]
    #[kani::stub(crate::structures::paging::page_table::PageTable::zero, zero_stub)]
    #[kani::stub(crate::addr::VirtAddr::as_mut_ptr, mmu_trap_as_mut_ptr)]
    fn c01_recursive_set_flags_p4_entry_2mib_p4_table_up() {
        rec_set_flags_step!(Size2MiB, "2mib", "p4_table", P3_ABSENT, IDX_UP, set_flags_p4_entry, "set_flags_p4_entry", 0);
        kani::cover!(true, "c01_recursive_set_flags_p4_entry_2mib_p4_table_up: reachable");
    }

    //@ obligation C02 C02.recursive_set_flags_p3_entry_2mib.shape_p4_absent.documented_outcome bounded="pool of 7 tables (4 path + 3 allocatable); tree-shaped sparse pre-state (target path, one neighbour word per path table, garbage in allocatable frames); recursive index 300; page-table indices (255,511,0,256)"
    //@ obligation C02 C02.recursive_set_flags_p3_entry_2mib.shape_p4_absent.error_leaves_every_mapping bounded="pool of 7 tables (4 path + 3 allocatable); tree-shaped sparse pre-state (target path, one neighbour word per path table, garbage in allocatable frames); recursive index 300; page-table indices (255,511,0,256)"
    //@ obligation C09 C09.recursive_set_flags_p3_entry_2mib.shape_p4_absent.only_dictated_slots_change bounded="pool of 7 tables (4 path + 3 allocatable); tree-shaped sparse pre-state (target path, one neighbour word per path table, garbage in allocatable frames); recursive index 300; page-table indices (255,511,0,256)"
    //@ obligation C09 C09.recursive_set_flags_p3_entry_2mib.shape_p4_absent.no_frames_requested_or_zeroed bounded="pool of 7 tables (4 path + 3 allocatable); tree-shaped sparse pre-state (target path, one neighbour word per path table, garbage in allocatable frames); recursive index 300; page-table indices (255,511,0,256)"
    //@ obligation C09 C09.recursive_set_flags_p3_entry_2mib.shape_p4_absent.no_dangling_table_pointer bounded="pool of 7 tables (4 path + 3 allocatable); tree-shaped sparse pre-state (target path, one neighbour word per path table, garbage in allocatable frames); recursive index 300; page-table indices (255,511,0,256)"
    //@ obligation C09 C09.recursive_set_flags_p3_entry_2mib.shape_p4_absent.no_access_outside_page_tables bounded="pool of 7 tables (4 path + 3 allocatable); tree-shaped sparse pre-state (target path, one neighbour word per path table, garbage in allocatable frames); recursive index 300; page-table indices (255,511,0,256)"
    #[kani::proof]
    #[kani::stub(crate::structures::paging::page_table::PageTable::zero, zero_stub)]
    #[kani::stub(crate::addr::VirtAddr::as_mut_ptr, mmu_trap_as_mut_ptr)]
    fn c01_recursive_set_flags_p3_entry_2mib_p4_absent_mid() {
        rec_set_flags_step!(Size2MiB, "2mib", "p4_absent", P4_ABSENT, IDX_MID, set_flags_p3_entry, "set_flags_p3_entry", 1);
        kani::cover!(true, "c01_recursive_set_flags_p3_entry_2mib_p4_absent_mid: reachable");
    }

    //@ obligation C02 C02.recursive_set_flags_p3_entry_2mib.shape_p4_absent.documented_outcome tier=thorough bounded="pool of 7 tables (4 path + 3 allocatable); tree-shaped sparse pre-state (target path, one neighbour word per path table, garbage in allocatable frames); recursive index 300; page-table indices (256,0,510,511)"
    //@ obligation C02 C02.recursive_set_flags_p3_entry_2mib.shape_p4_absent.error_leaves_every_mapping tier=thorough bounded="pool of 7 tables (4 path + 3 allocatable); tree-shaped sparse pre-state (target path, one neighbour word per path table, garbage in allocatable frames); recursive index 300; page-table indices (256,0,510,511)"
    //@ obligation C09 C09.recursive_set_flags_p3_entry_2mib.shape_p4_absent.only_dictated_slots_change tier=thorough bounded="pool of 7 tables (4 path + 3 allocatable); tree-shaped sparse pre-state (target path, one neighbour word per path table, garbage in allocatable frames); recursive index 300; page-table indices (256,0,510,511)"
    //@ obligation C09 C09.recursive_set_flags_p3_entry_2mib.shape_p4_absent.no_frames_requested_or_zeroed tier=thorough bounded="pool of 7 tables (4 path + 3 allocatable); tree-shaped sparse pre-state (target path, one neighbour word per path table, garbage in allocatable frames); recursive index 300; page-table indices (256,0,510,511)"
    //@ obligation C09 C09.recursive_set_flags_p3_entry_2mib.shape_p4_absent.no_dangling_table_pointer tier=thorough bounded="pool of 7 tables (4 path + 3 allocatable); tree-shaped sparse pre-state (target path, one neighbour word per path table, garbage in allocatable frames); recursive index 300; page-table indices (256,0,510,511)"
    //@ obligation C09 C09.recursive_set_flags_p3_entry_2mib.shape_p4_absent.no_access_outside_page_tables tier=thorough bounded="pool of 7 tables (4 path + 3 allocatable); tree-shaped sparse pre-state (target path, one neighbour word per path table, garbage in allocatable frames); recursive index 300; page-table indices (256,0,510,511)"
    #[kani::proof]
    #[kani::stub(crate::structures::paging::page_table::PageTable::zero, zero_stub)]
    #[kani::stub(crate::addr::VirtAddr::as_mut_ptr, mmu_trap_as_mut_ptr)]
    fn c01_recursive_set_flags_p3_entry_2mib_p4_absent_up() {
        rec_set_flags_step!(Size2MiB, "2mib", "p4_absent", P4_ABSENT, IDX_UP, set_flags_p3_entry, "set_flags_p3_entry", 1);
        kani::cover!(true, "c01_recursive_set_flags_p3_entry_2mib_p4_absent_up: reachable");
    }

    //@ obligation C02 C02.recursive_set_flags_p3_entry_2mib.shape_p3_absent.documented_outcome tier=thorough bounded="pool of 7 tables (4 path + 3 allocatable); tree-shaped sparse pre-state (target path, one neighbour word per path table, garbage in allocatable frames); recursive index 300; page-table indices (255,511,0,256)"
    //@ obligation C02 C02.recursive_set_flags_p3_entry_2mib.shape_p3_absent.error_leaves_every_mapping tier=thorough bounded="pool of 7 tables (4 path + 3 allocatable); tree-shaped sparse pre-state (target path, one neighbour word per path table, garbage in allocatable frames); recursive index 300; page-table indices (255,511,0,256)"
    //@ obligation C09 C09.recursive_set_flags_p3_entry_2mib.shape_p3_absent.only_dictated_slots_change tier=thorough bounded="pool of 7 tables (4 path + 3 allocatable); tree-shaped sparse pre-state (target path, one neighbour word per path table, garbage in allocatable frames); recursive index 300; page-table indices (255,511,0,256)"
    //@ obligation C09 C09.recursive_set_flags_p3_entry_2mib.shape_p3_absent.no_frames_requested_or_zeroed tier=thorough bounded="pool of 7 tables (4 path + 3 allocatable); tree-shaped sparse pre-state (target path, one neighbour word per path table, garbage in allocatable frames); recursive index 300; page-table indices (255,511,0,256)"
    //@ obligation C09 C09.recursive_set_flags_p3_entry_2mib.shape_p3_absent.no_dangling_table_pointer tier=thorough bounded="pool of 7 tables (4 path + 3 allocatable); tree-shaped sparse pre-state (target path, one neighbour word per path table, garbage in allocatable frames); recursive index 300; page-table indices (255,511,0,256)"
    //@ obligation C09 C09.recursive_set_flags_p3_entry_2mib.shape_p3_absent.no_access_outside_page_tables tier=thorough bounded="pool of 7 tables (4 path + 3 allocatable); tree-shaped sparse pre-state (target path, one neighbour word per path table, garbage in allocatable frames); recursive index 300; page-table indices (255,511,0,256)"
    //@ obligation C20 C20.recursive_set_flags_p3_entry_2mib.uses_recursive_addresses_of_the_page tier=thorough bounded="pool of 7 tables (4 path + 3 allocatable); tree-shaped sparse pre-state (target path, one neighbour word per path table, garbage in allocatable frames); recursive index 300; page-table indices (255,511,0,256)"
    #[kani::proof]
    #[kani::stub(crate::structures::paging::page_table::PageTable::zero, zero_stub)]
    #[kani::stub(crate::addr::VirtAddr::as_mut_ptr, mmu_trap_as_mut_ptr)]
    fn c01_recursive_set_flags_p3_entry_2mib_p3_absent_mid() {
        rec_set_flags_step!(Size2MiB, "2mib", "p3_absent", P3_ABSENT, IDX_MID, set_flags_p3_entry, "set_flags_p3_entry", 1);
        kani::cover!(true, "c01_recursive_set_flags_p3_entry_2mib_p3_absent_mid: reachable");
    }

    //@ obligation C02 C02.recursive_set_flags_p3_entry_2mib.shape_p3_absent.documented_outcome bounded="pool of 7 tables (4 path + 3 allocatable); tree-shaped sparse pre-state (target path, one neighbour word per path table, garbage in allocatable frames); recursive index 300; page-table indices (256,0,510,511)"
    //@ obligation C02 C02.recursive_set_flags_p3_entry_2mib.shape_p3_absent.error_leaves_every_mapping bounded="pool of 7 tables (4 path + 3 allocatable); tree-shaped sparse pre-state (target path, one neighbour word per path table, garbage in allocatable frames); recursive index 300; page-table indices (256,0,510,511)"
    //@ obligation C09 C09.recursive_set_flags_p3_entry_2mib.shape_p3_absent.only_dictated_slots_change bounded="pool of 7 tables (4 path + 3 allocatable); tree-shaped sparse pre-state (target path, one neighbour word per path table, garbage in allocatable frames); recursive index 300; page-table indices (256,0,510,511)"
    //@ obligation C09 C09.recursive_set_flags_p3_entry_2mib.shape_p3_absent.no_frames_requested_or_zeroed bounded="pool of 7 tables (4 path + 3 allocatable); tree-shaped sparse pre-state (target path, one neighbour word per path table, garbage in allocatable frames); recursive index 300; page-table indices (256,0,510,511)"
    //@ obligation C09 C09.recursive_set_flags_p3_entry_2mib.shape_p3_absent.no_dangling_table_pointer bounded="pool of 7 tables (4 path + 3 allocatable); tree-shaped sparse pre-state (target path, one neighbour word per path table, garbage in allocatable frames); recursive index 300; page-table indices (256,0,510,511)"
    //@ obligation C09 C09.recursive_set_flags_p3_entry_2mib.shape_p3_absent.no_access_outside_page_tables bounded="pool of 7 tables (4 path + 3 allocatable); tree-shaped sparse pre-state (target path, one neighbour word per path table, garbage in allocatable frames); recursive index 300; page-table indices (256,0,510,511)"
    //@ obligation C20 C20.recursive_set_flags_p3_entry_2mib.uses_recursive_addresses_of_the_page bounded="pool of 7 tables (4 path + 3 allocatable); tree-shaped sparse pre-state (target path, one neighbour word per path table, garbage in allocatable frames); recursive index 300; page-table indices (256,0,510,511)"
    #[kani::proof]
    #[kani::stub(crate::structures::paging::page_table::PageTable::zero, zero_stub)]
    #[kani::stub(crate::addr::VirtAddr::as_mut_ptr, mmu_trap_as_mut_ptr)]
    fn c01_recursive_set_flags_p3_entry_2mib_p3_absent_up() {
        rec_set_flags_step!(Size2MiB, "2mib", "p3_absent", P3_ABSENT, IDX_UP, set_flags_p3_entry, "set_flags_p3_entry", 1);
        kani::cover!(true, "c01_recursive_set_flags_p3_entry_2mib_p3_absent_up: reachable");
    }

    //@ obligation C02 C02.recursive_set_flags_p3_entry_2mib.shape_p3_table.documented_outcome bounded="pool of 7 tables (4 path + 3 allocatable); tree-shaped sparse pre-state (target path, one neighbour word per path table, garbage in allocatable frames); recursive index 300; page-table indices (255,511,0,256)"
    //@ obligation C01 C01.recursive_set_flags_p3_entry_2mib.shape_p3_table.no_leaf_changes bounded="pool of 7 tables (4 path + 3 allocatable); tree-shaped sparse pre-state (target path, one neighbour word per path table, garbage in allocatable frames); recursive index 300; page-table indices (255,511,0,256)"
    //@ obligation C01 C01.recursive_set_flags_p3_entry_2mib.shape_p3_table.entry_flags_replaced_address_kept bounded="pool of 7 tables (4 path + 3 allocatable); tree-shaped sparse pre-state (target path, one neighbour word per path table, garbage in allocatable frames); recursive index 300; page-table indices (255,511,0,256)"
    //@ obligation C11 C11.recursive_set_flags_p3_entry_2mib.shape_p3_table.flush_all_token bounded="pool of 7 tables (4 path + 3 allocatable); tree-shaped sparse pre-state (target path, one neighbour word per path table, garbage in allocatable frames); recursive index 300; page-table indices (255,511,0,256)"
    //@ obligation C09 C09.recursive_set_flags_p3_entry_2mib.shape_p3_table.only_dictated_slots_change bounded="pool of 7 tables (4 path + 3 allocatable); tree-shaped sparse pre-state (target path, one neighbour word per path table, garbage in allocatable frames); recursive index 300; page-table indices (255,511,0,256)"
    //@ obligation C09 C09.recursive_set_flags_p3_entry_2mib.shape_p3_table.no_frames_requested_or_zeroed bounded="pool of 7 tables (4 path + 3 allocatable); tree-shaped sparse pre-state (target path, one neighbour word per path table, garbage in allocatable frames); recursive index 300; page-table indices (255,511,0,256)"
    //@ obligation C09 C09.recursive_set_flags_p3_entry_2mib.shape_p3_table.no_dangling_table_pointer bounded="pool of 7 tables (4 path + 3 allocatable); tree-shaped sparse pre-state (target path, one neighbour word per path table, garbage in allocatable frames); recursive index 300; page-table indices (255,511,0,256)"
    //@ obligation C09 C09.recursive_set_flags_p3_entry_2mib.shape_p3_table.no_access_outside_page_tables bounded="pool of 7 tables (4 path + 3 allocatable); tree-shaped sparse pre-state (target path, one neighbour word per path table, garbage in allocatable frames); recursive index 300; page-table indices (255,511,0,256)"
    //@ obligation C20 C20.recursive_set_flags_p3_entry_2mib.uses_recursive_addresses_of_the_page bounded="pool of 7 tables (4 path + 3 allocatable); tree-shaped sparse pre-state (target path, one neighbour word per path table, garbage in allocatable frames); recursive index 300; page-table indices (255,511,0,256)"
    #[kani::proof]
    #[kani::stub(crate::structures::paging::page_table::PageTable::zero, zero_stub)]
    #[kani::stub(crate::addr::VirtAddr::as_mut_ptr, mmu_trap_as_mut_ptr)]
    fn c01_recursive_set_flags_p3_entry_2mib_p3_table_mid() {
        rec_set_flags_step!(Size2MiB, "2mib", "p3_table", P2_ABSENT, IDX_MID, set_flags_p3_entry, "set_flags_p3_entry", 1);
        kani::cover!(true, "c01_recursive_set_flags_p3_entry_2mib_p3_table_mid: reachable");
    }

    //@ obligation C02 C02.recursive_set_flags_p3_entry_2mib.shape_p3_table.documented_outcome tier=thorough bounded="pool of 7 tables (4 path + 3 allocatable); tree-shaped sparse pre-state (target path, one neighbour word per path table, garbage in allocatable frames); recursive index 300; page-table indices (256,0,510,511)"
    //@ obligation C01 C01.recursive_set_flags_p3_entry_2mib.shape_p3_table.no_leaf_changes tier=thorough bounded="pool of 7 tables (4 path + 3 allocatable); tree-shaped sparse pre-state (target path, one neighbour word per path table, garbage in allocatable frames); recursive index 300; page-table indices (256,0,510,511)"
    //@ obligation C01 C01.recursive_set_flags_p3_entry_2mib.shape_p3_table.entry_flags_replaced_address_kept tier=thorough bounded="pool of 7 tables (4 path + 3 allocatable); tree-shaped sparse pre-state (target path, one neighbour word per path table, garbage in allocatable frames); recursive index 300; page-table indices (256,0,510,511)"
    //@ obligation C11 C11.recursive_set_flags_p3_entry_2mib.shape_p3_table.flush_all_token tier=thorough bounded="pool of 7 tables (4 path + 3 allocatable); tree-shaped sparse pre-state (target path, one neighbour word per path table, garbage in allocatable frames); recursive index 300; page-table indices (256,0,510,511)"
    //@ obligation C09 C09.recursive_set_flags_p3_entry_2mib.shape_p3_table.only_dictated_slots_change tier=thorough bounded="pool of 7 tables (4 path + 3 allocatable); tree-shaped sparse pre-state (target path, one neighbour word per path table, garbage in allocatable frames); recursive index 300; page-table indices (256,0,510,511)"
    //@ obligation C09 C09.recursive_set_flags_p3_entry_2mib.shape_p3_table.no_frames_requested_or_zeroed tier=thorough bounded="pool of 7 tables (4 path + 3 allocatable); tree-shaped sparse pre-state (target path, one neighbour word per path table, garbage in allocatable frames); recursive index 300; page-table indices (256,0,510,511)"
    //@ obligation C09 C09.recursive_set_flags_p3_entry_2mib.shape_p3_table.no_dangling_table_pointer tier=thorough bounded="pool of 7 tables (4 path + 3 allocatable); tree-shaped sparse pre-state (target path, one neighbour word per path table, garbage in allocatable frames); recursive index 300; page-table indices (256,0,510,511)"
    //@ obligation C09 C09.recursive_set_flags_p3_entry_2mib.shape_p3_table.no_access_outside_page_tables tier=thorough bounded="pool of 7 tables (4 path + 3 allocatable); tree-shaped sparse pre-state (target path, one neighbour word per path table, garbage in allocatable frames); recursive index 300; page-table indices (256,0,510,511)"
    //@ obligation C20 C20.recursive_set_flags_p3_entry_2mib.uses_recursive_addresses_of_the_page tier=thorough bounded="pool of 7 tables (4 path + 3 allocatable); tree-shaped sparse pre-state (target path, one neighbour word per path table, garbage in allocatable frames); recursive index 300; page-table indices (256,0,510,511)"
    #[kani::proof]
    #[kani::stub(crate::structures::paging::page_table::PageTable::zero, zero_stub)]
    #[kani::stub(crate::addr::VirtAddr::as_mut_ptr, mmu_trap_as_mut_ptr)]
    fn c01_recursive_set_flags_p3_entry_2mib_p3_table_up() {
        rec_set_flags_step!(Size2MiB, "2mib", "p3_table", P2_ABSENT, IDX_UP, set_flags_p3_entry, "set_flags_p3_entry", 1);
        kani::cover!(true, "c01_recursive_set_flags_p3_entry_2mib_p3_table_up: reachable");
    }

    //@ obligation C02 C02.recursive_set_flags_p3_entry_2mib.shape_huge_leaf.reports_parent_entry_huge_page_and_unchanged bounded="pool of 7 tables (4 path + 3 allocatable); tree-shaped sparse pre-state (target path, one neighbour word per path table, garbage in allocatable frames); recursive index 300; page-table indices (255,511,0,256)"
    //@ obligation C02 C02.recursive_set_flags_p3_entry_2mib.shape_huge_leaf.error_leaves_every_mapping bounded="pool of 7 tables (4 path + 3 allocatable); tree-shaped sparse pre-state (target path, one neighbour word per path table, garbage in allocatable frames); recursive index 300; page-table indices (255,511,0,256)"
    //@ obligation C09 C09.recursive_set_flags_p3_entry_2mib.shape_huge_leaf.only_dictated_slots_change bounded="pool of 7 tables (4 path + 3 allocatable); tree-shaped sparse pre-state (target path, one neighbour word per path table, garbage in allocatable frames); recursive index 300; page-table indices (255,511,0,256)"
    //@ obligation C09 C09.recursive_set_flags_p3_entry_2mib.shape_huge_leaf.no_frames_requested_or_zeroed bounded="pool of 7 tables (4 path + 3 allocatable); tree-shaped sparse pre-state (target path, one neighbour word per path table, garbage in allocatable frames); recursive index 300; page-table indices (255,511,0,256)"
    //@ obligation C09 C09.recursive_set_flags_p3_entry_2mib.shape_huge_leaf.no_dangling_table_pointer bounded="pool of 7 tables (4 path + 3 allocatable); tree-shaped sparse pre-state (target path, one neighbour word per path table, garbage in allocatable frames); recursive index 300; page-table indices (255,511,0,256)"
    //@ obligation C09 C09.recursive_set_flags_p3_entry_2mib.shape_huge_leaf.no_access_outside_page_tables bounded="pool of 7 tables (4 path + 3 allocatable); tree-shaped sparse pre-state (target path, one neighbour word per path table, garbage in allocatable frames); recursive index 300; page-table indices (255,511,0,256)"
    //@ obligation C20 C20.recursive_set_flags_p3_entry_2mib.uses_recursive_addresses_of_the_page bounded="pool of 7 tables (4 path + 3 allocatable); tree-shaped sparse pre-state (target path, one neighbour word per path table, garbage in allocatable frames); recursive index 300; page-table indices (255,511,0,256)"
    #[kani::proof]
    #[kani::stub(crate::structures::paging::page_table::PageTable::zero, zero_stub)]
    #[kani::stub(crate::addr::VirtAddr::as_mut_ptr, mmu_trap_as_mut_ptr)]
    fn c01_recursive_set_flags_p3_entry_2mib_huge_leaf_mid() {
        rec_set_flags_step!(Size2MiB, "2mib", "huge_leaf", P3_HUGE, IDX_MID, set_flags_p3_entry, "set_flags_p3_entry", 1);
        kani::cover!(true, "c01_recursive_set_flags_p3_entry_2mib_huge_leaf_mid: reachable");
    }

    //@ obligation C02 C02.recursive_set_flags_p3_entry_2mib.shape_huge_leaf.reports_parent_entry_huge_page_and_unchanged tier=thorough bounded="pool of 7 tables (4 path + 3 allocatable); tree-shaped sparse pre-state (target path, one neighbour word per path table, garbage in allocatable frames); recursive index 300; page-table indices (256,0,510,511)"
    //@ obligation C02 C02.recursive_set_flags_p3_entry_2mib.shape_huge_leaf.error_leaves_every_mapping tier=thorough bounded="pool of 7 tables (4 path + 3 allocatable); tree-shaped sparse pre-state (target path, one neighbour word per path table, garbage in allocatable frames); recursive index 300; page-table indices (256,0,510,511)"
    //@ obligation C09 C09.recursive_set_flags_p3_entry_2mib.shape_huge_leaf.only_dictated_slots_change tier=thorough bounded="pool of 7 tables (4 path + 3 allocatable); tree-shaped sparse pre-state (target path, one neighbour word per path table, garbage in allocatable frames); recursive index 300; page-table indices (256,0,510,511)"
    //@ obligation C09 C09.recursive_set_flags_p3_entry_2mib.shape_huge_leaf.no_frames_requested_or_zeroed tier=thorough bounded="pool of 7 tables (4 path + 3 allocatable); tree-shaped sparse pre-state (target path, one neighbour word per path table, garbage in allocatable frames); recursive index 300; page-table indices (256,0,510,511)"
    //@ obligation C09 C09.recursive_set_flags_p3_entry_2mib.shape_huge_leaf.no_dangling_table_pointer tier=thorough bounded="pool of 7 tables (4 path + 3 allocatable); tree-shaped sparse pre-state (target path, one neighbour word per path table, garbage in allocatable frames); recursive index 300; page-table indices (256,0,510,511)"
    //@ obligation C09 C09.recursive_set_flags_p3_entry_2mib.shape_huge_leaf.no_access_outside_page_tables tier=thorough bounded="pool of 7 tables (4 path + 3 allocatable); tree-shaped sparse pre-state (target path, one neighbour word per path table, garbage in allocatable frames); recursive index 300; page-table indices (256,0,510,511)"
    //@ obligation C20 C20.recursive_set_flags_p3_entry_2mib.uses_recursive_addresses_of_the_page tier=thorough bounded="pool of 7 tables (4 path + 3 allocatable); tree-shaped sparse pre-state (target path, one neighbour word per path table, garbage in allocatable frames); recursive index 300; page-table indices (256,0,510,511)"
    #[kani::proof]
    #[kani::stub(crate::structures::paging::page_table::PageTable::zero, zero_stub)]
    #[kani::stub(crate::addr::VirtAddr::as_mut_ptr, mmu_trap_as_mut_ptr)]
    fn c01_recursive_set_flags_p3_entry_2mib_huge_leaf_up() {
        rec_set_flags_step!(Size2MiB, "2mib", "huge_leaf", P3_HUGE, IDX_UP, set_flags_p3_entry, "set_flags_p3_entry", 1);
        kani::cover!(true, "c01_recursive_set_flags_p3_entry_2mib_huge_leaf_up: reachable");
    }

    //@ obligation C02 C02.recursive_set_flags_p2_entry_2mib.shape_any.level_above_leaf_does_not_exist_is_error tier=thorough bounded="pool of 7 tables (4 path + 3 allocatable); tree-shaped sparse pre-state (target path, one neighbour word per path table, garbage in allocatable frames); recursive index 300; page-table indices (255,511,0,256)"
    //@ obligation C02 C02.recursive_set_flags_p2_entry_2mib.shape_any.error_leaves_every_mapping tier=thorough bounded="pool of 7 tables (4 path + 3 allocatable); tree-shaped sparse pre-state (target path, one neighbour word per path table, garbage in allocatable frames); recursive index 300; page-table indices (255,511,0,256)"
    //@ obligation C09 C09.recursive_set_flags_p2_entry_2mib.shape_any.only_dictated_slots_change tier=thorough bounded="pool of 7 tables (4 path + 3 allocatable); tree-shaped sparse pre-state (target path, one neighbour word per path table, garbage in allocatable frames); recursive index 300; page-table indices (255,511,0,256)"
    //@ obligation C09 C09.recursive_set_flags_p2_entry_2mib.shape_any.no_frames_requested_or_zeroed tier=thorough bounded="pool of 7 tables (4 path + 3 allocatable); tree-shaped sparse pre-state (target path, one neighbour word per path table, garbage in allocatable frames); recursive index 300; page-table indices (255,511,0,256)"
    //@ obligation C09 C09.recursive_set_flags_p2_entry_2mib.shape_any.no_dangling_table_pointer tier=thorough bounded="pool of 7 tables (4 path + 3 allocatable); tree-shaped sparse pre-state (target path, one neighbour word per path table, garbage in allocatable frames); recursive index 300; page-table indices (255,511,0,256)"
    //@ obligation C09 C09.recursive_set_flags_p2_entry_2mib.shape_any.no_access_outside_page_tables tier=thorough bounded="pool of 7 tables (4 path + 3 allocatable); tree-shaped sparse pre-state (target path, one neighbour word per path table, garbage in allocatable frames); recursive index 300; page-table indices (255,511,0,256)"
    #[kani::proof]
    #[kani::stub(crate::structures::paging::page_table::PageTable::zero, zero_stub)]
    #[kani::stub(crate::addr::VirtAddr::as_mut_ptr, mmu_trap_as_mut_ptr)]
    fn c01_recursive_set_flags_p2_entry_2mib_any_mid() {
        rec_set_flags_step!(Size2MiB, "2mib", "any", P2_HUGE, IDX_MID, set_flags_p2_entry, "set_flags_p2_entry", 2);
        kani::cover!(true, "c01_recursive_set_flags_p2_entry_2mib_any_mid: reachable");
    }

    //@ obligation C02 C02.recursive_set_flags_p2_entry_2mib.shape_any.level_above_leaf_does_not_exist_is_error bounded="pool of 7 tables (4 path + 3 allocatable); tree-shaped sparse pre-state (target path, one neighbour word per path table, garbage in allocatable frames); recursive index 300; page-table indices (256,0,510,511)"
    //@ obligation C02 C02.recursive_set_flags_p2_entry_2mib.shape_any.error_leaves_every_mapping bounded="pool of 7 tables (4 path + 3 allocatable); tree-shaped sparse pre-state (target path, one neighbour word per path table, garbage in allocatable frames); recursive index 300; page-table indices (256,0,510,511)"
    //@ obligation C09 C09.recursive_set_flags_p2_entry_2mib.shape_any.only_dictated_slots_change bounded="pool of 7 tables (4 path + 3 allocatable); tree-shaped sparse pre-state (target path, one neighbour word per path table, garbage in allocatable frames); recursive index 300; page-table indices (256,0,510,511)"
    //@ obligation C09 C09.recursive_set_flags_p2_entry_2mib.shape_any.no_frames_requested_or_zeroed bounded="pool of 7 tables (4 path + 3 allocatable); tree-shaped sparse pre-state (target path, one neighbour word per path table, garbage in allocatable frames); recursive index 300; page-table indices (256,0,510,511)"
    //@ obligation C09 C09.recursive_set_flags_p2_entry_2mib.shape_any.no_dangling_table_pointer bounded="pool of 7 tables (4 path + 3 allocatable); tree-shaped sparse pre-state (target path, one neighbour word per path table, garbage in allocatable frames); recursive index 300; page-table indices (256,0,510,511)"
    //@ obligation C09 C09.recursive_set_flags_p2_entry_2mib.shape_any.no_access_outside_page_tables bounded="pool of 7 tables (4 path + 3 allocatable); tree-shaped sparse pre-state (target path, one neighbour word per path table, garbage in allocatable frames); recursive index 300; page-table indices (256,0,510,511)"
    #[kani::proof]
    #[kani::stub(crate::structures::paging::page_table::PageTable::zero, zero_stub)]
    #[kani::stub(crate::addr::VirtAddr::as_mut_ptr, mmu_trap_as_mut_ptr)]
    fn c01_recursive_set_flags_p2_entry_2mib_any_up() {
        rec_set_flags_step!(Size2MiB, "2mib", "any", P2_HUGE, IDX_UP, set_flags_p2_entry, "set_flags_p2_entry", 2);
        kani::cover!(true, "c01_recursive_set_flags_p2_entry_2mib_any_up: reachable");
    }

    //@ obligation C02 C02.recursive_set_flags_p4_entry_1gib.shape_p4_absent.documented_outcome bounded="pool of 7 tables (4 path + 3 allocatable); tree-shaped sparse pre-state (target path, one neighbour word per path table, garbage in allocatable frames); recursive index 300; page-table indices (255,511,0,256)"
    //@ obligation C02 C02.recursive_set_flags_p4_entry_1gib.shape_p4_absent.error_leaves_every_mapping bounded="pool of 7 tables (4 path + 3 allocatable); tree-shaped sparse pre-state (target path, one neighbour word per path table, garbage in allocatable frames); recursive index 300; page-table indices (255,511,0,256)"
    //@ obligation C09 C09.recursive_set_flags_p4_entry_1gib.shape_p4_absent.only_dictated_slots_change bounded="pool of 7 tables (4 path + 3 allocatable); tree-shaped sparse pre-state (target path, one neighbour word per path table, garbage in allocatable frames); recursive index 300; page-table indices (255,511,0,256)"
    //@ obligation C09 C09.recursive_set_flags_p4_entry_1gib.shape_p4_absent.no_frames_requested_or_zeroed bounded="pool of 7 tables (4 path + 3 allocatable); tree-shaped sparse pre-state (target path, one neighbour word per path table, garbage in allocatable frames); recursive index 300; page-table indices (255,511,0,256)"
    //@ obligation C09 C09.recursive_set_flags_p4_entry_1gib.shape_p4_absent.no_dangling_table_pointer bounded="pool of 7 tables (4 path + 3 allocatable); tree-shaped sparse pre-state (target path, one neighbour word per path table, garbage in allocatable frames); recursive index 300; page-table indices (255,511,0,256)"
    //@ obligation C09 C09.recursive_set_flags_p4_entry_1gib.shape_p4_absent.no_access_outside_page_tables bounded="pool of 7 tables (4 path + 3 allocatable); tree-shaped sparse pre-state (target path, one neighbour word per path table, garbage in allocatable frames); recursive index 300; page-table indices (255,511,0,256)"
    #[kani::proof]
    #[kani::stub(crate::structures::paging::page_table::PageTable::zero, zero_stub)]
    #[kani::stub(crate::addr::VirtAddr::as_mut_ptr, mmu_trap_as_mut_ptr)]
    fn c01_recursive_set_flags_p4_entry_1gib_p4_absent_mid() {
        rec_set_flags_step!(Size1GiB, "1gib", "p4_absent", P4_ABSENT, IDX_MID, set_flags_p4_entry, "set_flags_p4_entry", 0);
        kani::cover!(true, "c01_recursive_set_flags_p4_entry_1gib_p4_absent_mid: reachable");
    }

    //@ obligation C02 C02.recursive_set_flags_p4_entry_1gib.shape_p4_absent.documented_outcome tier=thorough bounded="pool of 7 tables (4 path + 3 allocatable); tree-shaped sparse pre-state (target path, one neighbour word per path table, garbage in allocatable frames); recursive index 300; page-table indices (256,0,510,511)"
    //@ obligation C02 C02.recursive_set_flags_p4_entry_1gib.shape_p4_absent.error_leaves_every_mapping tier=thorough bounded="pool of 7 tables (4 path + 3 allocatable); tree-shaped sparse pre-state (target path, one neighbour word per path table, garbage in allocatable frames); recursive index 300; page-table indices (256,0,510,511)"
    //@ obligation C09 C09.recursive_set_flags_p4_entry_1gib.shape_p4_absent.only_dictated_slots_change tier=thorough bounded="pool of 7 tables (4 path + 3 allocatable); tree-shaped sparse pre-state (target path, one neighbour word per path table, garbage in allocatable frames); recursive index 300; page-table indices (256,0,510,511)"
    //@ obligation C09 C09.recursive_set_flags_p4_entry_1gib.shape_p4_absent.no_frames_requested_or_zeroed tier=thorough bounded="pool of 7 tables (4 path + 3 allocatable); tree-shaped sparse pre-state (target path, one neighbour word per path table, garbage in allocatable frames); recursive index 300; page-table indices (256,0,510,511)"
    //@ obligation C09 C09.recursive_set_flags_p4_entry_1gib.shape_p4_absent.no_dangling_table_pointer tier=thorough bounded="pool of 7 tables (4 path + 3 allocatable); tree-shaped sparse pre-state (target path, one neighbour word per path table, garbage in allocatable frames); recursive index 300; page-table indices (256,0,510,511)"
    //@ obligation C09 C09.recursive_set_flags_p4_entry_1gib.shape_p4_absent.no_access_outside_page_tables tier=thorough bounded="pool of 7 tables (4 path + 3 allocatable); tree-shaped sparse pre-state (target path, one neighbour word per path table, garbage in allocatable frames); recursive index 300; page-table indices (256,0,510,511)"
    #[kani::proof]
    #[kani::stub(crate::structures::paging::page_table::PageTable::zero, zero_stub)]
    #[kani::stub(crate::addr::VirtAddr::as_mut_ptr, mmu_trap_as_mut_ptr)]
    fn c01_recursive_set_flags_p4_entry_1gib_p4_absent_up() {
        rec_set_flags_step!(Size1GiB, "1gib", "p4_absent", P4_ABSENT, IDX_UP, set_flags_p4_entry, "set_flags_p4_entry", 0);
        kani::cover!(true, "c01_recursive_set_flags_p4_entry_1gib_p4_absent_up: reachable");
    }

    //@ obligation C02 C02.recursive_set_flags_p4_entry_1gib.shape_p4_table.documented_outcome bounded="pool of 7 tables (4 path + 3 allocatable); tree-shaped sparse pre-state (target path, one neighbour word per path table, garbage in allocatable frames); recursive index 300; page-table indices (255,511,0,256)"
    //@ obligation C01 C01.recursive_set_flags_p4_entry_1gib.shape_p4_table.no_leaf_changes bounded="pool of 7 tables (4 path + 3 allocatable); tree-shaped sparse pre-state (target path, one neighbour word per path table, garbage in allocatable frames); recursive index 300; page-table indices (255,511,0,256)"
    //@ obligation C01 C01.recursive_set_flags_p4_entry_1gib.shape_p4_table.entry_flags_replaced_address_kept bounded="pool of 7 tables (4 path + 3 allocatable); tree-shaped sparse pre-state (target path, one neighbour word per path table, garbage in allocatable frames); recursive index 300; page-table indices (255,511,0,256)"
    //@ obligation C11 C11.recursive_set_flags_p4_entry_1gib.shape_p4_table.flush_all_token bounded="pool of 7 tables (4 path + 3 allocatable); tree-shaped sparse pre-state (target path, one neighbour word per path table, garbage in allocatable frames); recursive index 300; page-table indices (255,511,0,256)"
    //@ obligation C09 C09.recursive_set_flags_p4_entry_1gib.shape_p4_table.only_dictated_slots_change bounded="pool of 7 tables (4 path + 3 allocatable); tree-shaped sparse pre-state (target path, one neighbour word per path table, garbage in allocatable frames); recursive index 300; page-table indices (255,511,0,256)"
    //@ obligation C09 C09.recursive_set_flags_p4_entry_1gib.shape_p4_table.no_frames_requested_or_zeroed bounded="pool of 7 tables (4 path + 3 allocatable); tree-shaped sparse pre-state (target path, one neighbour word per path table, garbage in allocatable frames); recursive index 300; page-table indices (255,511,0,256)"
    //@ obligation C09 C09.recursive_set_flags_p4_entry_1gib.shape_p4_table.no_dangling_table_pointer bounded="pool of 7 tables (4 path + 3 allocatable); tree-shaped sparse pre-state (target path, one neighbour word per path table, garbage in allocatable frames); recursive index 300; page-table indices (255,511,0,256)"
    //@ obligation C09 C09.recursive_set_flags_p4_entry_1gib.shape_p4_table.no_access_outside_page_tables bounded="pool of 7 tables (4 path + 3 allocatable); tree-shaped sparse pre-state (target path, one neighbour word per path table, garbage in allocatable frames); recursive index 300; page-table indices (255,511,0,256)"
    #[kani::proof]
    #[kani::stub(crate::structures::paging::page_table::PageTable::zero, zero_stub)]
    #[kani::stub(crate::addr::VirtAddr::as_mut_ptr, mmu_trap_as_mut_ptr)]
    fn c01_recursive_set_flags_p4_entry_1gib_p4_table_mid() {
        rec_set_flags_step!(Size1GiB, "1gib", "p4_table", P3_ABSENT, IDX_MID, set_flags_p4_entry, "set_flags_p4_entry", 0);
        kani::cover!(true, "c01_recursive_set_flags_p4_entry_1gib_p4_table_mid: reachable");
    }

    //@ obligation C02 C02.recursive_set_flags_p4_entry_1gib.shape_p4_table.documented_outcome tier=thorough bounded="pool of 7 tables (4 path + 3 allocatable); tree-shaped sparse pre-state (target path, one neighbour word per path table, garbage in allocatable frames); recursive index 300; page-table indices (256,0,510,511)"
    //@ obligation C01 C01.recursive_set_flags_p4_entry_1gib.shape_p4_table.no_leaf_changes tier=thorough bounded="pool of 7 tables (4 path + 3 allocatable); tree-shaped sparse pre-state (target path, one neighbour word per path table, garbage in allocatable frames); recursive index 300; page-table indices (256,0,510,511)"
    //@ obligation C01 C01.recursive_set_flags_p4_entry_1gib.shape_p4_table.entry_flags_replaced_address_kept tier=thorough bounded="pool of 7 tables (4 path + 3 allocatable); tree-shaped sparse pre-state (target path, one neighbour word per path table, garbage in allocatable frames); recursive index 300; page-table indices (256,0,510,511)"
    //@ obligation C11 C11.recursive_set_flags_p4_entry_1gib.shape_p4_table.flush_all_token tier=thorough bounded="pool of 7 tables (4 path + 3 allocatable); tree-shaped sparse pre-state (target path, one neighbour word per path table, garbage in allocatable frames); recursive index 300; page-table indices (256,0,510,511)"
    //@ obligation C09 C09.recursive_set_flags_p4_entry_1gib.shape_p4_table.only_dictated_slots_change tier=thorough bounded="pool of 7 tables (4 path + 3 allocatable); tree-shaped sparse pre-state (target path, one neighbour word per path table, garbage in allocatable frames); recursive index 300; page-table indices (256,0,510,511)"
    //@ obligation C09 C09.recursive_set_flags_p4_entry_1gib.shape_p4_table.no_frames_requested_or_zeroed tier=thorough bounded="pool of 7 tables (4 path + 3 allocatable); tree-shaped sparse pre-state (target path, one neighbour word per path table, garbage in allocatable frames); recursive index 300; page-table indices (256,0,510,511)"
    //@ obligation C09 C09.recursive_set_flags_p4_entry_1gib.shape_p4_table.no_dangling_table_pointer tier=thorough bounded="pool of 7 tables (4 path + 3 allocatable); tree-shaped sparse pre-state (target path, one neighbour word per path table, garbage in allocatable frames); recursive index 300; page-table indices (256,0,510,511)"
    //@ obligation C09 C09.recursive_set_flags_p4_entry_1gib.shape_p4_table.no_access_outside_page_tables tier=thorough bounded="pool of 7 tables (4 path + 3 allocatable); tree-shaped sparse pre-state (target path, one neighbour word per path table, garbage in allocatable frames); recursive index 300; page-table indices (256,0,510,511)"
    #[kani::proof]
    #[kani::stub(crate::structures::paging::page_table::PageTable::zero, zero_stub)]
    #[kani::stub(crate::addr::VirtAddr::as_mut_ptr, mmu_trap_as_mut_ptr)]
    fn c01_recursive_set_flags_p4_entry_1gib_p4_table_up() {
        rec_set_flags_step!(Size1GiB, "1gib", "p4_table", P3_ABSENT, IDX_UP, set_flags_p4_entry, "set_flags_p4_entry", 0);
        kani::cover!(true, "c01_recursive_set_flags_p4_entry_1gib_p4_table_up: reachable");
    }

    //@ obligation C02 C02.recursive_set_flags_p3_entry_1gib.shape_any.level_above_leaf_does_not_exist_is_error bounded="pool of 7 tables (4 path + 3 allocatable); tree-shaped sparse pre-state (target path, one neighbour word per path table, garbage in allocatable frames); recursive index 300; page-table indices (255,511,0,256)"
    //@ obligation C02 C02.recursive_set_flags_p3_entry_1gib.shape_any.error_leaves_every_mapping bounded="pool of 7 tables (4 path + 3 allocatable); tree-shaped sparse pre-state (target path, one neighbour word per path table, garbage in allocatable frames); recursive index 300; page-table indices (255,511,0,256)"
    //@ obligation C09 C09.recursive_set_flags_p3_entry_1gib.shape_any.only_dictated_slots_change bounded="pool of 7 tables (4 path + 3 allocatable); tree-shaped sparse pre-state (target path, one neighbour word per path table, garbage in allocatable frames); recursive index 300; page-table indices (255,511,0,256)"
    //@ obligation C09 C09.recursive_set_flags_p3_entry_1gib.shape_any.no_frames_requested_or_zeroed bounded="pool of 7 tables (4 path + 3 allocatable); tree-shaped sparse pre-state (target path, one neighbour word per path table, garbage in allocatable frames); recursive index 300; page-table indices (255,511,0,256)"
    //@ obligation C09 C09.recursive_set_flags_p3_entry_1gib.shape_any.no_dangling_table_pointer bounded="pool of 7 tables (4 path + 3 allocatable); tree-shaped sparse pre-state (target path, one neighbour word per path table, garbage in allocatable frames); recursive index 300; page-table indices (255,511,0,256)"
    //@ obligation C09 C09.recursive_set_flags_p3_entry_1gib.shape_any.no_access_outside_page_tables bounded="pool of 7 tables (4 path + 3 allocatable); tree-shaped sparse pre-state (target path, one neighbour word per path table, garbage in allocatable frames); recursive index 300; page-table indices (255,511,0,256)"
    #[kani::proof]
    #[kani::stub(crate::structures::paging::page_table::PageTable::zero, zero_stub)]
    #[kani::stub(crate::addr::VirtAddr::as_mut_ptr, mmu_trap_as_mut_ptr)]
    fn c01_recursive_set_flags_p3_entry_1gib_any_mid() {
        rec_set_flags_step!(Size1GiB, "1gib", "any", P3_HUGE, IDX_MID, set_flags_p3_entry, "set_flags_p3_entry", 1);
        kani::cover!(true, "c01_recursive_set_flags_p3_entry_1gib_any_mid: reachable");
    }

    //@ obligation C02 C02.recursive_set_flags_p3_entry_1gib.shape_any.level_above_leaf_does_not_exist_is_error tier=thorough bounded="pool of 7 tables (4 path + 3 allocatable); tree-shaped sparse pre-state (target path, one neighbour word per path table, garbage in allocatable frames); recursive index 300; page-table indices (256,0,510,511)"
    //@ obligation C02 C02.recursive_set_flags_p3_entry_1gib.shape_any.error_leaves_every_mapping tier=thorough bounded="pool of 7 tables (4 path + 3 allocatable); tree-shaped sparse pre-state (target path, one neighbour word per path table, garbage in allocatable frames); recursive index 300; page-table indices (256,0,510,511)"
    //@ obligation C09 C09.recursive_set_flags_p3_entry_1gib.shape_any.only_dictated_slots_change tier=thorough bounded="pool of 7 tables (4 path + 3 allocatable); tree-shaped sparse pre-state (target path, one neighbour word per path table, garbage in allocatable frames); recursive index 300; page-table indices (256,0,510,511)"
    //@ obligation C09 C09.recursive_set_flags_p3_entry_1gib.shape_any.no_frames_requested_or_zeroed tier=thorough bounded="pool of 7 tables (4 path + 3 allocatable); tree-shaped sparse pre-state (target path, one neighbour word per path table, garbage in allocatable frames); recursive index 300; page-table indices (256,0,510,511)"
    //@ obligation C09 C09.recursive_set_flags_p3_entry_1gib.shape_any.no_dangling_table_pointer tier=thorough bounded="pool of 7 tables (4 path + 3 allocatable); tree-shaped sparse pre-state (target path, one neighbour word per path table, garbage in allocatable frames); recursive index 300; page-table indices (256,0,510,511)"
    //@ obligation C09 C09.recursive_set_flags_p3_entry_1gib.shape_any.no_access_outside_page_tables tier=thorough bounded="pool of 7 tables (4 path + 3 allocatable); tree-shaped sparse pre-state (target path, one neighbour word per path table, garbage in allocatable frames); recursive index 300; page-table indices (256,0,510,511)"
    #[kani::proof]
    #[kani::stub(crate::structures::paging::page_table::PageTable::zero, zero_stub)]
    #[kani::stub(crate::addr::VirtAddr::as_mut_ptr, mmu_trap_as_mut_ptr)]
    fn c01_recursive_set_flags_p3_entry_1gib_any_up() {
        rec_set_flags_step!(Size1GiB, "1gib", "any", P3_HUGE, IDX_UP, set_flags_p3_entry, "set_flags_p3_entry", 1);
        kani::cover!(true, "c01_recursive_set_flags_p3_entry_1gib_any_up: reachable");
    }

    //@ obligation C02 C02.recursive_set_flags_p2_entry_1gib.shape_any.level_above_leaf_does_not_exist_is_error bounded="pool of 7 tables (4 path + 3 allocatable); tree-shaped sparse pre-state (target path, one neighbour word per path table, garbage in allocatable frames); recursive index 300; page-table indices (255,511,0,256)"
    //@ obligation C02 C02.recursive_set_flags_p2_entry_1gib.shape_any.error_leaves_every_mapping bounded="pool of 7 tables (4 path + 3 allocatable); tree-shaped sparse pre-state (target path, one neighbour word per path table, garbage in allocatable frames); recursive index 300; page-table indices (255,511,0,256)"
    //@ obligation C09 C09.recursive_set_flags_p2_entry_1gib.shape_any.only_dictated_slots_change bounded="pool of 7 tables (4 path + 3 allocatable); tree-shaped sparse pre-state (target path, one neighbour word per path table, garbage in allocatable frames); recursive index 300; page-table indices (255,511,0,256)"
    //@ obligation C09 C09.recursive_set_flags_p2_entry_1gib.shape_any.no_frames_requested_or_zeroed bounded="pool of 7 tables (4 path + 3 allocatable); tree-shaped sparse pre-state (target path, one neighbour word per path table, garbage in allocatable frames); recursive index 300; page-table indices (255,511,0,256)"
    //@ obligation C09 C09.recursive_set_flags_p2_entry_1gib.shape_any.no_dangling_table_pointer bounded="pool of 7 tables (4 path + 3 allocatable); tree-shaped sparse pre-state (target path, one neighbour word per path table, garbage in allocatable frames); recursive index 300; page-table indices (255,511,0,256)"
    //@ obligation C09 C09.recursive_set_flags_p2_entry_1gib.shape_any.no_access_outside_page_tables bounded="pool of 7 tables (4 path + 3 allocatable); tree-shaped sparse pre-state (target path, one neighbour word per path table, garbage in allocatable frames); recursive index 300; page-table indices (255,511,0,256)"
    #[kani::proof]
    #[kani::stub(crate::structures::paging::page_table::PageTable::zero, zero_stub)]
    #[kani::stub(crate::addr::VirtAddr::as_mut_ptr, mmu_trap_as_mut_ptr)]
    fn c01_recursive_set_flags_p2_entry_1gib_any_mid() {
        rec_set_flags_step!(Size1GiB, "1gib", "any", P3_HUGE, IDX_MID, set_flags_p2_entry, "set_flags_p2_entry", 2);
        kani::cover!(true, "c01_recursive_set_flags_p2_entry_1gib_any_mid: reachable");
    }

    //@ obligation C02 C02.recursive_set_flags_p2_entry_1gib.shape_any.level_above_leaf_does_not_exist_is_error tier=thorough bounded="pool of 7 tables (4 path + 3 allocatable); tree-shaped sparse pre-state (target path, one neighbour word per path table, garbage in allocatable frames); recursive index 300; page-table indices (256,0,510,511)"
    //@ obligation C02 C02.recursive_set_flags_p2_entry_1gib.shape_any.error_leaves_every_mapping tier=thorough bounded="pool of 7 tables (4 path + 3 allocatable); tree-shaped sparse pre-state (target path, one neighbour word per path table, garbage in allocatable frames); recursive index 300; page-table indices (256,0,510,511)"
    //@ obligation C09 C09.recursive_set_flags_p2_entry_1gib.shape_any.only_dictated_slots_change tier=thorough bounded="pool of 7 tables (4 path + 3 allocatable); tree-shaped sparse pre-state (target path, one neighbour word per path table, garbage in allocatable frames); recursive index 300; page-table indices (256,0,510,511)"
    //@ obligation C09 C09.recursive_set_flags_p2_entry_1gib.shape_any.no_frames_requested_or_zeroed tier=thorough bounded="pool of 7 tables (4 path + 3 allocatable); tree-shaped sparse pre-state (target path, one neighbour word per path table, garbage in allocatable frames); recursive index 300; page-table indices (256,0,510,511)"
    //@ obligation C09 C09.recursive_set_flags_p2_entry_1gib.shape_any.no_dangling_table_pointer tier=thorough bounded="pool of 7 tables (4 path + 3 allocatable); tree-shaped sparse pre-state (target path, one neighbour word per path table, garbage in allocatable frames); recursive index 300; page-table indices (256,0,510,511)"
    //@ obligation C09 C09.recursive_set_flags_p2_entry_1gib.shape_any.no_access_outside_page_tables tier=thorough bounded="pool of 7 tables (4 path + 3 allocatable); tree-shaped sparse pre-state (target path, one neighbour word per path table, garbage in allocatable frames); recursive index 300; page-table indices (256,0,510,511)"
    #[kani::proof]
    #[kani::stub(crate::structures::paging::page_table::PageTable::zero, zero_stub)]
    #[kani::stub(crate::addr::VirtAddr::as_mut_ptr, mmu_trap_as_mut_ptr)]
    fn c01_recursive_set_flags_p2_entry_1gib_any_up() {
        rec_set_flags_step!(Size1GiB, "1gib", "any", P3_HUGE, IDX_UP, set_flags_p2_entry, "set_flags_p2_entry", 2);
        kani::cover!(true, "c01_recursive_set_flags_p2_entry_1gib_any_up: reachable");
    }
}
