//@ include-into src/registers/model_specific.rs
//
// C16: Msr and the typed MSR wrappers (Efer, FsBase, GsBase, KernelGsBase,
// Star, LStar, SFMask, UCet, SCet, Pat, ApicBase) against the abstract machine.
//
// MSR numbers, field masks and PAT encodings below are written from the SDM
// (vol. 4 table 2-2, vol. 3A 11.12) / APM vol. 2, not taken from the crate, so
// a wrong number or a dropped flag in the crate is seen here.
//
// The model has ONE watched MSR cell (`msr_index`, `msr_value`) plus the three
// base MSRs, which alias `fs_base` / `gs_base` / `kernel_gs_base`. A harness
// about a typed wrapper sets `msr_index` to the architectural number and
// leaves `msr_value` symbolic (= all prior 64-bit contents). If the wrapper
// used another number, its read would return a fresh value / its write would
// not reach `msr_value`, and the event operand `a` (ecx) would differ.

#[cfg(kani)]
mod verif_c16_msr {
    use super::x86_64::InvalidStarSegmentSelectors;
    use super::*;
    use crate::registers::rflags::RFlags;
    use crate::structures::gdt::SegmentSelector;
    use crate::structures::paging::{Page, PhysFrame, Size4KiB};
    use crate::verif_hw::{self, field, Kind, Machine};
    use crate::{PhysAddr, VirtAddr};

    const IA32_APIC_BASE: u32 = 0x1B;
    const IA32_PAT: u32 = 0x277;
    const IA32_U_CET: u32 = 0x6A0;
    const IA32_S_CET: u32 = 0x6A2;
    const IA32_EFER: u32 = 0xC000_0080;
    const IA32_STAR: u32 = 0xC000_0081;
    const IA32_LSTAR: u32 = 0xC000_0082;
    const IA32_FMASK: u32 = 0xC000_0084;
    const IA32_FS_BASE: u32 = 0xC000_0100;
    const IA32_GS_BASE: u32 = 0xC000_0101;
    const IA32_KERNEL_GS_BASE: u32 = 0xC000_0102;

    /// EFER bits 0 (SCE), 8 (LME), 10 (LMA), 11 (NXE), 12 (SVME), 13 (LMSLE), 14 (FFXSR), 15 (TCE).
    const EFER_MODELLED: u64 = 0xFD01;
    /// RFLAGS bits 0, 2, 4, 6-11, 12-13 (IOPL), 14, 16-21.
    const RFLAGS_MODELLED: u64 = 0x003F_7FD5;
    /// IA32_x_CET bits 0-5, 10, 11.
    const CET_MODELLED: u64 = 0x0C3F;
    /// IA32_APIC_BASE bits 8 (BSP), 10 (EXTD), 11 (EN).
    const APIC_FLAGS_MODELLED: u64 = 0x0D00;
    /// Physical frame: bits 12-51.
    const PHYS_FRAME_MASK: u64 = 0x000f_ffff_ffff_f000;

    fn lo(v: u64) -> u64 {
        v & 0xffff_ffff
    }
    fn hi(v: u64) -> u64 {
        v >> 32
    }
    fn canonical(v: u64) -> bool {
        let top = v >> 47;
        top == 0 || top == 0x1_ffff
    }
    /// Make `idx` the watched MSR cell of the (already symbolic) machine; its
    /// prior contents `msr_value` stay symbolic. Returns a copy of the prior state.
    /// (`reset_symbolic()` is called in the harness body itself so that the
    /// playback labels of kani_run.py apply.)
    fn watch(idx: u32) -> Machine {
        verif_hw::m().msr_index = idx;
        *verif_hw::m()
    }
    fn rd(m: &Machine, i: usize, idx: u32, v: u64) -> bool {
        m.event(i).is(Kind::Rdmsr, idx as u64, lo(v), hi(v))
    }
    fn wr(m: &Machine, i: usize, idx: u32, v: u64) -> bool {
        m.event(i).is(Kind::Wrmsr, idx as u64, lo(v), hi(v))
    }
    fn clean(m: &Machine, n: usize) -> bool {
        m.log_len == n && !m.log_overflow && !m.unknown_asm_hit
    }
    fn any_vaddr() -> VirtAddr {
        // new_truncate sign-extends bit 47: its image is the set of all canonical addresses
        VirtAddr::new_truncate(kani::any())
    }
    fn any_frame() -> (PhysFrame, u64) {
        let addr = kani::any::<u64>() & PHYS_FRAME_MASK;
        (PhysFrame::containing_address(PhysAddr::new(addr)), addr)
    }
    fn any_page() -> (Page<Size4KiB>, u64) {
        let p = Page::<Size4KiB>::containing_address(any_vaddr());
        (p, p.start_address().as_u64())
    }

    // ------------------------------------------------------------------ Msr

    //@ obligation C16 C16.Msr_read.edx_eax_of_index
    #[kani::proof]
    fn c16_msr_read_edx_eax_of_index() {
        verif_hw::reset_symbolic();
        let before = *verif_hw::m();
        let idx = before.msr_index;
        let val = before.msr_value;
        // the three base MSRs alias fs_base / gs_base / kernel_gs_base in the model
        kani::assume(idx < IA32_FS_BASE || idx > IA32_KERNEL_GS_BASE);
        kani::cover!(true, "c16_msr_read_edx_eax_of_index: reachable");
        let r = unsafe { Msr::new(idx).read() };
        let m = verif_hw::m();
        assert!(
            r == val,
            "C16.Msr_read.edx_eax_of_index: result == (edx << 32) | eax of MSR[index]"
        );
        assert!(
            m.only_event_is(Kind::Rdmsr, idx as u64, lo(val), hi(val)),
            "C16.Msr_read.edx_eax_of_index: exactly one rdmsr with ecx == index"
        );
        assert!(
            m.regs_same_except(&before, field::NONE),
            "C16.Msr_read.edx_eax_of_index: no register changes"
        );
    }

    //@ obligation C16 C16.Msr_write.edx_eax_to_index
    #[kani::proof]
    fn c16_msr_write_edx_eax_to_index() {
        verif_hw::reset_symbolic();
        let before = *verif_hw::m();
        let idx = before.msr_index;
        let val: u64 = kani::any();
        kani::assume(idx < IA32_FS_BASE || idx > IA32_KERNEL_GS_BASE);
        kani::cover!(true, "c16_msr_write_edx_eax_to_index: reachable");
        unsafe { Msr::new(idx).write(val) };
        let m = verif_hw::m();
        assert!(
            m.msr_value == val,
            "C16.Msr_write.edx_eax_to_index: MSR[index] == value"
        );
        assert!(
            m.only_event_is(Kind::Wrmsr, idx as u64, lo(val), hi(val)),
            "C16.Msr_write.edx_eax_to_index: exactly one wrmsr, ecx == index, eax low half, edx high half"
        );
        assert!(
            m.regs_same_except(&before, field::MSR),
            "C16.Msr_write.edx_eax_to_index: no other register changes"
        );
    }

    /// An MSR other than the watched one: the write must not reach the watched cell.
    //@ obligation C16 C16.Msr_write.other_index_untouched
    #[kani::proof]
    fn c16_msr_write_other_index_untouched() {
        verif_hw::reset_symbolic();
        let before = *verif_hw::m();
        let idx: u32 = kani::any();
        let val: u64 = kani::any();
        kani::assume(idx != before.msr_index);
        kani::assume(idx < IA32_FS_BASE || idx > IA32_KERNEL_GS_BASE);
        kani::cover!(true, "c16_msr_write_other_index_untouched: reachable");
        unsafe { Msr::new(idx).write(val) };
        let m = verif_hw::m();
        assert!(
            m.regs_same_except(&before, field::NONE),
            "C16.Msr_write.other_index_untouched: a write to MSR j leaves MSR i != j and every register alone"
        );
        assert!(
            m.only_event_is(Kind::Wrmsr, idx as u64, lo(val), hi(val)),
            "C16.Msr_write.other_index_untouched: exactly one wrmsr to j"
        );
    }

    // ----------------------------------------------------------------- Efer

    //@ obligation C16 C16.Efer_read.truncated_raw
    //@ obligation C16 C16.Efer_read_raw.value_and_event
    #[kani::proof]
    fn c16_efer_read_truncated_raw() {
        verif_hw::reset_symbolic();
        let before = watch(IA32_EFER);
        let old = before.msr_value;
        kani::cover!(true, "c16_efer_read_truncated_raw: reachable");
        let r = Efer::read();
        {
            let m = verif_hw::m();
            assert!(
                r.bits() == old & EFER_MODELLED,
                "C16.Efer_read.truncated_raw: typed read == raw & MODELLED"
            );
            assert!(
                clean(m, 1) && rd(m, 0, IA32_EFER, old) && m.regs_same_except(&before, field::NONE),
                "C16.Efer_read.truncated_raw: one rdmsr of 0xC000_0080, nothing changes"
            );
        }
        let raw = Efer::read_raw();
        let m = verif_hw::m();
        assert!(raw == old, "C16.Efer_read_raw.value_and_event: returns all 64 bits");
        assert!(
            clean(m, 2) && rd(m, 1, IA32_EFER, old) && m.regs_same_except(&before, field::NONE),
            "C16.Efer_read_raw.value_and_event: one rdmsr of 0xC000_0080, nothing changes"
        );
    }

    //@ obligation C16 C16.Efer_write_raw.stores_exactly
    #[kani::proof]
    fn c16_efer_write_raw_stores_exactly() {
        verif_hw::reset_symbolic();
        let before = watch(IA32_EFER);
        let v: u64 = kani::any();
        kani::cover!(true, "c16_efer_write_raw_stores_exactly: reachable");
        unsafe { Efer::write_raw(v) };
        let m = verif_hw::m();
        assert!(m.msr_value == v, "C16.Efer_write_raw.stores_exactly: EFER == value");
        assert!(
            clean(m, 1) && wr(m, 0, IA32_EFER, v),
            "C16.Efer_write_raw.stores_exactly: exactly one wrmsr to 0xC000_0080 with edx:eax == value"
        );
        assert!(
            m.regs_same_except(&before, field::MSR),
            "C16.Efer_write_raw.stores_exactly: no other register changes"
        );
    }

    //@ obligation C16 C16.Efer_write.preserves_unmodelled
    #[kani::proof]
    fn c16_efer_write_preserves_unmodelled() {
        verif_hw::reset_symbolic();
        let before = watch(IA32_EFER);
        let old = before.msr_value;
        let flags = EferFlags::from_bits_retain(kani::any::<u64>() & EFER_MODELLED);
        kani::cover!(true, "c16_efer_write_preserves_unmodelled: reachable");
        unsafe { Efer::write(flags) };
        let m = verif_hw::m();
        let expect = (old & !EFER_MODELLED) | flags.bits();
        assert!(
            m.msr_value == expect,
            "C16.Efer_write.preserves_unmodelled: new == (old & !MODELLED) | flags"
        );
        assert!(
            clean(m, 2) && rd(m, 0, IA32_EFER, old) && wr(m, 1, IA32_EFER, expect),
            "C16.Efer_write.preserves_unmodelled: one rdmsr then exactly one wrmsr, both to 0xC000_0080"
        );
        assert!(
            m.regs_same_except(&before, field::MSR),
            "C16.Efer_write.preserves_unmodelled: no other register changes"
        );
        assert!(
            Efer::read() == flags,
            "C16.Efer_write.preserves_unmodelled: the next typed read returns the flags written"
        );
    }

    //@ obligation C16 C16.Efer_update.read_f_write
    #[kani::proof]
    fn c16_efer_update_read_f_write() {
        verif_hw::reset_symbolic();
        let before = watch(IA32_EFER);
        let old = before.msr_value;
        let chosen = EferFlags::from_bits_retain(kani::any::<u64>() & EFER_MODELLED);
        kani::cover!(true, "c16_efer_update_read_f_write: reachable");
        let mut calls: u8 = 0;
        let mut seen: u64 = 0;
        let mut writes_before_f: usize = 0;
        unsafe {
            Efer::update(|f| {
                calls += 1;
                seen = f.bits();
                writes_before_f = verif_hw::count(Kind::Wrmsr);
                *f = chosen;
            })
        };
        let m = verif_hw::m();
        let expect = (old & !EFER_MODELLED) | chosen.bits();
        assert!(calls == 1, "C16.Efer_update.read_f_write: f runs exactly once");
        assert!(
            seen == old & EFER_MODELLED,
            "C16.Efer_update.read_f_write: f sees the typed read of the old value"
        );
        assert!(writes_before_f == 0, "C16.Efer_update.read_f_write: nothing is written before f ran");
        assert!(
            m.msr_value == expect,
            "C16.Efer_update.read_f_write: the result of f is written like Efer::write"
        );
        assert!(
            clean(m, 3)
                && rd(m, 0, IA32_EFER, old)
                && rd(m, 1, IA32_EFER, old)
                && wr(m, 2, IA32_EFER, expect)
                && m.regs_same_except(&before, field::MSR),
            "C16.Efer_update.read_f_write: reads, then exactly one wrmsr to 0xC000_0080, nothing else changes"
        );
    }

    // ------------------------------------- FsBase / GsBase / KernelGsBase / LStar
    // The typed readers return VirtAddr::new(raw), which panics on a
    // non-canonical value. WRMSR to these four registers raises #GP for a
    // non-canonical value, so the registers cannot hold one: the prior contents
    // are assumed canonical (stated in C16_NOTES.md).

    //@ obligation C16 C16.FsBase_read.value_and_event
    #[kani::proof]
    fn c16_fsbase_read_value_and_event() {
        verif_hw::reset_symbolic();
        let before = *verif_hw::m();
        let old = before.fs_base;
        kani::assume(canonical(old));
        kani::cover!(true, "c16_fsbase_read_value_and_event: reachable");
        let r = FsBase::read();
        let m = verif_hw::m();
        assert!(r.as_u64() == old, "C16.FsBase_read.value_and_event: returns FS.base, all 64 bits");
        assert!(
            clean(m, 1) && rd(m, 0, IA32_FS_BASE, old) && m.regs_same_except(&before, field::NONE),
            "C16.FsBase_read.value_and_event: one rdmsr of 0xC000_0100, nothing changes"
        );
    }

    //@ obligation C16 C16.FsBase_write.read_back
    #[kani::proof]
    fn c16_fsbase_write_read_back() {
        verif_hw::reset_symbolic();
        let before = *verif_hw::m();
        let a = any_vaddr();
        kani::cover!(true, "c16_fsbase_write_read_back: reachable");
        FsBase::write(a);
        {
            let m = verif_hw::m();
            assert!(m.fs_base == a.as_u64(), "C16.FsBase_write.read_back: FS.base == address");
            assert!(
                clean(m, 1) && wr(m, 0, IA32_FS_BASE, a.as_u64()),
                "C16.FsBase_write.read_back: exactly one wrmsr to 0xC000_0100 with edx:eax == address"
            );
            assert!(
                m.regs_same_except(&before, field::FS_BASE),
                "C16.FsBase_write.read_back: no other register changes"
            );
        }
        assert!(FsBase::read() == a, "C16.FsBase_write.read_back: read returns what was written");
    }

    //@ obligation C16 C16.GsBase_read.value_and_event
    #[kani::proof]
    fn c16_gsbase_read_value_and_event() {
        verif_hw::reset_symbolic();
        let before = *verif_hw::m();
        let old = before.gs_base;
        kani::assume(canonical(old));
        kani::cover!(true, "c16_gsbase_read_value_and_event: reachable");
        let r = GsBase::read();
        let m = verif_hw::m();
        assert!(r.as_u64() == old, "C16.GsBase_read.value_and_event: returns GS.base, all 64 bits");
        assert!(
            clean(m, 1) && rd(m, 0, IA32_GS_BASE, old) && m.regs_same_except(&before, field::NONE),
            "C16.GsBase_read.value_and_event: one rdmsr of 0xC000_0101, nothing changes"
        );
    }

    //@ obligation C16 C16.GsBase_write.read_back
    #[kani::proof]
    fn c16_gsbase_write_read_back() {
        verif_hw::reset_symbolic();
        let before = *verif_hw::m();
        let a = any_vaddr();
        kani::cover!(true, "c16_gsbase_write_read_back: reachable");
        GsBase::write(a);
        {
            let m = verif_hw::m();
            assert!(m.gs_base == a.as_u64(), "C16.GsBase_write.read_back: GS.base == address");
            assert!(
                clean(m, 1) && wr(m, 0, IA32_GS_BASE, a.as_u64()),
                "C16.GsBase_write.read_back: exactly one wrmsr to 0xC000_0101 with edx:eax == address"
            );
            assert!(
                m.regs_same_except(&before, field::GS_BASE),
                "C16.GsBase_write.read_back: no other register changes"
            );
        }
        assert!(GsBase::read() == a, "C16.GsBase_write.read_back: read returns what was written");
    }

    //@ obligation C16 C16.KernelGsBase_read.value_and_event
    #[kani::proof]
    fn c16_kernelgsbase_read_value_and_event() {
        verif_hw::reset_symbolic();
        let before = *verif_hw::m();
        let old = before.kernel_gs_base;
        kani::assume(canonical(old));
        kani::cover!(true, "c16_kernelgsbase_read_value_and_event: reachable");
        let r = KernelGsBase::read();
        let m = verif_hw::m();
        assert!(
            r.as_u64() == old,
            "C16.KernelGsBase_read.value_and_event: returns KernelGSbase, all 64 bits"
        );
        assert!(
            clean(m, 1) && rd(m, 0, IA32_KERNEL_GS_BASE, old) && m.regs_same_except(&before, field::NONE),
            "C16.KernelGsBase_read.value_and_event: one rdmsr of 0xC000_0102, nothing changes"
        );
    }

    //@ obligation C16 C16.KernelGsBase_write.read_back
    #[kani::proof]
    fn c16_kernelgsbase_write_read_back() {
        verif_hw::reset_symbolic();
        let before = *verif_hw::m();
        let a = any_vaddr();
        kani::cover!(true, "c16_kernelgsbase_write_read_back: reachable");
        KernelGsBase::write(a);
        {
            let m = verif_hw::m();
            assert!(
                m.kernel_gs_base == a.as_u64(),
                "C16.KernelGsBase_write.read_back: KernelGSbase == address"
            );
            assert!(
                clean(m, 1) && wr(m, 0, IA32_KERNEL_GS_BASE, a.as_u64()),
                "C16.KernelGsBase_write.read_back: exactly one wrmsr to 0xC000_0102 with edx:eax == address"
            );
            assert!(
                m.regs_same_except(&before, field::KERNEL_GS_BASE),
                "C16.KernelGsBase_write.read_back: no other register changes"
            );
        }
        assert!(
            KernelGsBase::read() == a,
            "C16.KernelGsBase_write.read_back: read returns what was written"
        );
    }

    //@ obligation C16 C16.LStar_read.value_and_event
    #[kani::proof]
    fn c16_lstar_read_value_and_event() {
        verif_hw::reset_symbolic();
        let before = watch(IA32_LSTAR);
        let old = before.msr_value;
        kani::assume(canonical(old));
        kani::cover!(true, "c16_lstar_read_value_and_event: reachable");
        let r = LStar::read();
        let m = verif_hw::m();
        assert!(r.as_u64() == old, "C16.LStar_read.value_and_event: returns LSTAR, all 64 bits");
        assert!(
            clean(m, 1) && rd(m, 0, IA32_LSTAR, old) && m.regs_same_except(&before, field::NONE),
            "C16.LStar_read.value_and_event: one rdmsr of 0xC000_0082, nothing changes"
        );
    }

    //@ obligation C16 C16.LStar_write.read_back
    #[kani::proof]
    fn c16_lstar_write_read_back() {
        verif_hw::reset_symbolic();
        let before = watch(IA32_LSTAR);
        let a = any_vaddr();
        kani::cover!(true, "c16_lstar_write_read_back: reachable");
        LStar::write(a);
        {
            let m = verif_hw::m();
            assert!(m.msr_value == a.as_u64(), "C16.LStar_write.read_back: LSTAR == address");
            assert!(
                clean(m, 1) && wr(m, 0, IA32_LSTAR, a.as_u64()),
                "C16.LStar_write.read_back: exactly one wrmsr to 0xC000_0082 with edx:eax == address"
            );
            assert!(
                m.regs_same_except(&before, field::MSR),
                "C16.LStar_write.read_back: no other register changes"
            );
        }
        assert!(LStar::read() == a, "C16.LStar_write.read_back: read returns what was written");
    }

    // ----------------------------------------------------------------- Star

    //@ obligation C16 C16.Star_read_raw.fields
    #[kani::proof]
    fn c16_star_read_raw_fields() {
        verif_hw::reset_symbolic();
        let before = watch(IA32_STAR);
        let old = before.msr_value;
        kani::cover!(true, "c16_star_read_raw_fields: reachable");
        let (sysret, syscall) = Star::read_raw();
        let m = verif_hw::m();
        assert!(
            sysret as u64 == old >> 48 && syscall as u64 == (old >> 32) & 0xffff,
            "C16.Star_read_raw.fields: (bits 48-63, bits 32-47)"
        );
        assert!(
            clean(m, 1) && rd(m, 0, IA32_STAR, old) && m.regs_same_except(&before, field::NONE),
            "C16.Star_read_raw.fields: one rdmsr of 0xC000_0081, nothing changes"
        );
    }

    /// Star::read adds 16 / 8 / 8 to the 16-bit fields with plain `+`: for a
    /// SYSRET field above 0xFFEF or a SYSCALL field above 0xFFF7 that is an
    /// arithmetic overflow (panic with overflow checks, wrap without). Such
    /// register contents are outside the domain here (assumed away, see notes).
    //@ obligation C16 C16.Star_read.selectors
    #[kani::proof]
    fn c16_star_read_selectors() {
        verif_hw::reset_symbolic();
        let before = watch(IA32_STAR);
        let old = before.msr_value;
        let sysret = (old >> 48) as u16;
        let syscall = ((old >> 32) & 0xffff) as u16;
        kani::assume(sysret <= 0xFFEF && syscall <= 0xFFF7);
        kani::cover!(true, "c16_star_read_selectors: reachable");
        let (cs_sysret, ss_sysret, cs_syscall, ss_syscall) = Star::read();
        let m = verif_hw::m();
        assert!(
            cs_sysret.0 == sysret + 16 && ss_sysret.0 == sysret + 8,
            "C16.Star_read.selectors: SYSRET CS = field + 16, SS = field + 8"
        );
        assert!(
            cs_syscall.0 == syscall && ss_syscall.0 == syscall + 8,
            "C16.Star_read.selectors: SYSCALL CS = field, SS = field + 8"
        );
        assert!(
            clean(m, 1) && rd(m, 0, IA32_STAR, old) && m.regs_same_except(&before, field::NONE),
            "C16.Star_read.selectors: one rdmsr of 0xC000_0081, nothing changes"
        );
    }

    //@ obligation C16 C16.Star_write_raw.stores_fields
    #[kani::proof]
    fn c16_star_write_raw_stores_fields() {
        verif_hw::reset_symbolic();
        let before = watch(IA32_STAR);
        let sysret: u16 = kani::any();
        let syscall: u16 = kani::any();
        kani::cover!(true, "c16_star_write_raw_stores_fields: reachable");
        unsafe { Star::write_raw(sysret, syscall) };
        let expect = ((sysret as u64) << 48) | ((syscall as u64) << 32);
        {
            let m = verif_hw::m();
            assert!(
                m.msr_value == expect,
                "C16.Star_write_raw.stores_fields: STAR == sysret << 48 | syscall << 32 (legacy EIP field 0)"
            );
            assert!(
                clean(m, 1) && wr(m, 0, IA32_STAR, expect) && m.regs_same_except(&before, field::MSR),
                "C16.Star_write_raw.stores_fields: exactly one wrmsr to 0xC000_0081, nothing else changes"
            );
        }
        assert!(
            Star::read_raw() == (sysret, syscall),
            "C16.Star_write_raw.stores_fields: read_raw returns what was written"
        );
    }

    /// The documented acceptance condition of Star::write, written from its
    /// doc comment: SYSRET CS = SS + 8, SYSCALL SS = CS + 8, SYSRET selectors
    /// ring 3, SYSCALL selectors ring 0.
    fn star_valid(cs_sysret: u16, ss_sysret: u16, cs_syscall: u16, ss_syscall: u16) -> bool {
        cs_sysret as u32 == ss_sysret as u32 + 8
            && ss_syscall as u32 == cs_syscall as u32 + 8
            && ss_sysret & 3 == 3
            && ss_syscall & 3 == 0
    }

    /// Domain restriction (DESIGN.md C16): Star::write computes
    /// `ss_sysret.0 - 8` in u16; for ss_sysret.0 < 8 that underflows (panic
    /// with overflow checks, wrap without) although the offset checks pass
    /// (they are done in i32). Hence `assume(ss_sysret.0 >= 8)`.
    //@ obligation C16 C16.Star_write.accepts_and_reads_back
    #[kani::proof]
    fn c16_star_write_accepts_and_reads_back() {
        verif_hw::reset_symbolic();
        let before = watch(IA32_STAR);
        let cs_sysret = SegmentSelector(kani::any());
        let ss_sysret = SegmentSelector(kani::any());
        let cs_syscall = SegmentSelector(kani::any());
        let ss_syscall = SegmentSelector(kani::any());
        kani::assume(star_valid(cs_sysret.0, ss_sysret.0, cs_syscall.0, ss_syscall.0));
        kani::assume(ss_sysret.0 >= 8);
        kani::cover!(true, "c16_star_write_accepts_and_reads_back: reachable");
        let r = Star::write(cs_sysret, ss_sysret, cs_syscall, ss_syscall);
        let expect = (((ss_sysret.0 - 8) as u64) << 48) | ((cs_syscall.0 as u64) << 32);
        {
            let m = verif_hw::m();
            assert!(r.is_ok(), "C16.Star_write.accepts_and_reads_back: a valid quadruple is accepted");
            assert!(
                m.msr_value == expect,
                "C16.Star_write.accepts_and_reads_back: STAR[63:48] = SYSRET SS - 8, STAR[47:32] = SYSCALL CS"
            );
            assert!(
                clean(m, 1) && wr(m, 0, IA32_STAR, expect) && m.regs_same_except(&before, field::MSR),
                "C16.Star_write.accepts_and_reads_back: exactly one wrmsr to 0xC000_0081, nothing else changes"
            );
        }
        let back = Star::read();
        assert!(
            back.0 == cs_sysret && back.1 == ss_sysret && back.2 == cs_syscall && back.3 == ss_syscall,
            "C16.Star_write.accepts_and_reads_back: read returns the four selectors written"
        );
    }

    //@ obligation C16 C16.Star_write.rejects_without_writing
    #[kani::proof]
    fn c16_star_write_rejects_without_writing() {
        verif_hw::reset_symbolic();
        let before = watch(IA32_STAR);
        let cs_sysret = SegmentSelector(kani::any());
        let ss_sysret = SegmentSelector(kani::any());
        let cs_syscall = SegmentSelector(kani::any());
        let ss_syscall = SegmentSelector(kani::any());
        kani::assume(!star_valid(cs_sysret.0, ss_sysret.0, cs_syscall.0, ss_syscall.0));
        kani::cover!(true, "c16_star_write_rejects_without_writing: reachable");
        let r = Star::write(cs_sysret, ss_sysret, cs_syscall, ss_syscall);
        let m = verif_hw::m();
        assert!(r.is_err(), "C16.Star_write.rejects_without_writing: an invalid quadruple is rejected");
        assert!(
            clean(m, 0) && m.block_seq == 0,
            "C16.Star_write.rejects_without_writing: no instruction at all was executed (no wrmsr)"
        );
        assert!(
            m.regs_same_except(&before, field::NONE),
            "C16.Star_write.rejects_without_writing: STAR and every other register unchanged"
        );
        let reason_is_true = match r {
            Err(InvalidStarSegmentSelectors::SysretOffset) => cs_sysret.0 as u32 != ss_sysret.0 as u32 + 8,
            Err(InvalidStarSegmentSelectors::SyscallOffset) => ss_syscall.0 as u32 != cs_syscall.0 as u32 + 8,
            Err(InvalidStarSegmentSelectors::SysretPrivilegeLevel) => ss_sysret.0 & 3 != 3,
            Err(InvalidStarSegmentSelectors::SyscallPrivilegeLevel) => ss_syscall.0 & 3 != 0,
            Ok(()) => false,
        };
        assert!(
            reason_is_true,
            "C16.Star_write.rejects_without_writing: the reported reason holds for the arguments"
        );
    }

    // --------------------------------------------------------------- SFMask

    /// FINDING: SFMask::read is `RFlags::from_bits(raw).unwrap()`.
    /// The statement says a typed read returns exactly the modelled bits of the
    /// raw value for ALL prior register contents; no panic is documented.
    /// IA32_FMASK[31:0] is freely writable (bits 63:32 are reserved and read as
    /// zero, so they are assumed zero here to keep the counterexample one that
    /// hardware can hold), e.g. raw == 2 (RFLAGS bit 1, which is always 1 in
    /// RFLAGS itself) is a possible register content and makes read() panic.
    /// This harness is the statement, not weakened further.
    //@ obligation C16 C16.SFMask_read.truncated_raw
    #[kani::proof]
    fn c16_sfmask_read_truncated_raw() {
        verif_hw::reset_symbolic();
        let before = watch(IA32_FMASK);
        let old = before.msr_value;
        kani::assume(old >> 32 == 0);
        kani::cover!(true, "c16_sfmask_read_truncated_raw: reachable");
        let r = SFMask::read();
        let m = verif_hw::m();
        assert!(
            r.bits() == old & RFLAGS_MODELLED,
            "C16.SFMask_read.truncated_raw: typed read == raw & MODELLED for every raw value"
        );
        assert!(
            clean(m, 1) && rd(m, 0, IA32_FMASK, old) && m.regs_same_except(&before, field::NONE),
            "C16.SFMask_read.truncated_raw: one rdmsr of 0xC000_0084, nothing changes"
        );
    }

    /// The part of SFMask::read that holds: prior contents with modelled bits only.
    //@ obligation C16 C16.SFMask_read.modelled_raw
    #[kani::proof]
    fn c16_sfmask_read_modelled_raw() {
        verif_hw::reset_symbolic();
        let before = watch(IA32_FMASK);
        let old = before.msr_value;
        kani::assume(old & !RFLAGS_MODELLED == 0);
        kani::cover!(true, "c16_sfmask_read_modelled_raw: reachable");
        let r = SFMask::read();
        let m = verif_hw::m();
        assert!(
            r.bits() == old,
            "C16.SFMask_read.modelled_raw: typed read == raw when raw has modelled bits only"
        );
        assert!(
            clean(m, 1) && rd(m, 0, IA32_FMASK, old) && m.regs_same_except(&before, field::NONE),
            "C16.SFMask_read.modelled_raw: one rdmsr of 0xC000_0084, nothing changes"
        );
    }

    //@ obligation C16 C16.SFMask_write.read_back
    #[kani::proof]
    fn c16_sfmask_write_read_back() {
        verif_hw::reset_symbolic();
        let before = watch(IA32_FMASK);
        let flags = RFlags::from_bits_retain(kani::any::<u64>() & RFLAGS_MODELLED);
        kani::cover!(true, "c16_sfmask_write_read_back: reachable");
        SFMask::write(flags);
        {
            let m = verif_hw::m();
            assert!(
                m.msr_value == flags.bits(),
                "C16.SFMask_write.read_back: SFMASK == flags (whole-register write)"
            );
            assert!(
                clean(m, 1) && wr(m, 0, IA32_FMASK, flags.bits()) && m.regs_same_except(&before, field::MSR),
                "C16.SFMask_write.read_back: exactly one wrmsr to 0xC000_0084, nothing else changes"
            );
        }
        assert!(SFMask::read() == flags, "C16.SFMask_write.read_back: read returns what was written");
    }

    //@ obligation C16 C16.SFMask_update.read_f_write
    #[kani::proof]
    fn c16_sfmask_update_read_f_write() {
        verif_hw::reset_symbolic();
        let before = watch(IA32_FMASK);
        let old = before.msr_value;
        kani::assume(old & !RFLAGS_MODELLED == 0); // see c16_sfmask_read_truncated_raw
        let chosen = RFlags::from_bits_retain(kani::any::<u64>() & RFLAGS_MODELLED);
        kani::cover!(true, "c16_sfmask_update_read_f_write: reachable");
        let mut calls: u8 = 0;
        let mut seen: u64 = 0;
        let mut writes_before_f: usize = 0;
        SFMask::update(|f| {
            calls += 1;
            seen = f.bits();
            writes_before_f = verif_hw::count(Kind::Wrmsr);
            *f = chosen;
        });
        let m = verif_hw::m();
        assert!(calls == 1, "C16.SFMask_update.read_f_write: f runs exactly once");
        assert!(seen == old, "C16.SFMask_update.read_f_write: f sees the typed read of the old value");
        assert!(writes_before_f == 0, "C16.SFMask_update.read_f_write: nothing is written before f ran");
        assert!(
            m.msr_value == chosen.bits(),
            "C16.SFMask_update.read_f_write: the result of f is written like SFMask::write"
        );
        assert!(
            clean(m, 2)
                && rd(m, 0, IA32_FMASK, old)
                && wr(m, 1, IA32_FMASK, chosen.bits())
                && m.regs_same_except(&before, field::MSR),
            "C16.SFMask_update.read_f_write: one rdmsr, then exactly one wrmsr to 0xC000_0084"
        );
    }

    // ----------------------------------------------------------- UCet / SCet
    // IA32_x_CET[63:12] is a linear address; WRMSR raises #GP if it is not
    // canonical, so prior contents are assumed canonical in bits 12-63 (the
    // typed read goes through VirtAddr::new, which panics otherwise).

    //@ obligation C16 C16.UCet_read.decodes_register
    #[kani::proof]
    fn c16_ucet_read_decodes_register() {
        verif_hw::reset_symbolic();
        let before = watch(IA32_U_CET);
        let old = before.msr_value;
        kani::assume(canonical(old & !0xfff));
        kani::cover!(true, "c16_ucet_read_decodes_register: reachable");
        let (flags, page) = UCet::read();
        let m = verif_hw::m();
        assert!(
            flags.bits() == old & CET_MODELLED,
            "C16.UCet_read.decodes_register: flags == raw & MODELLED"
        );
        assert!(
            page.start_address().as_u64() == old & !0xfff,
            "C16.UCet_read.decodes_register: legacy bitmap page == bits 12-63"
        );
        assert!(
            clean(m, 1) && rd(m, 0, IA32_U_CET, old) && m.regs_same_except(&before, field::NONE),
            "C16.UCet_read.decodes_register: one rdmsr of 0x6A0, nothing changes"
        );
    }

    //@ obligation C16 C16.UCet_write.read_back
    #[kani::proof]
    fn c16_ucet_write_read_back() {
        verif_hw::reset_symbolic();
        let before = watch(IA32_U_CET);
        let flags = CetFlags::from_bits_retain(kani::any::<u64>() & CET_MODELLED);
        let (page, page_addr) = any_page();
        kani::cover!(true, "c16_ucet_write_read_back: reachable");
        UCet::write(flags, page);
        let expect = flags.bits() | page_addr;
        {
            let m = verif_hw::m();
            assert!(
                m.msr_value == expect,
                "C16.UCet_write.read_back: register == flags | page address (whole-register write)"
            );
            assert!(
                clean(m, 1) && wr(m, 0, IA32_U_CET, expect) && m.regs_same_except(&before, field::MSR),
                "C16.UCet_write.read_back: exactly one wrmsr to 0x6A0, nothing else changes"
            );
        }
        let (f2, p2) = UCet::read();
        assert!(
            f2 == flags && p2 == page,
            "C16.UCet_write.read_back: read returns the flags and the page written"
        );
    }

    //@ obligation C16 C16.UCet_update.read_f_write
    #[kani::proof]
    fn c16_ucet_update_read_f_write() {
        verif_hw::reset_symbolic();
        let before = watch(IA32_U_CET);
        let old = before.msr_value;
        kani::assume(canonical(old & !0xfff));
        let chosen_flags = CetFlags::from_bits_retain(kani::any::<u64>() & CET_MODELLED);
        let (chosen_page, chosen_addr) = any_page();
        kani::cover!(true, "c16_ucet_update_read_f_write: reachable");
        let mut calls: u8 = 0;
        let mut seen: (u64, u64) = (0, 0);
        let mut writes_before_f: usize = 0;
        UCet::update(|f, p| {
            calls += 1;
            seen = (f.bits(), p.start_address().as_u64());
            writes_before_f = verif_hw::count(Kind::Wrmsr);
            *f = chosen_flags;
            *p = chosen_page;
        });
        let m = verif_hw::m();
        let expect = chosen_flags.bits() | chosen_addr;
        assert!(calls == 1, "C16.UCet_update.read_f_write: f runs exactly once");
        assert!(
            seen == (old & CET_MODELLED, old & !0xfff),
            "C16.UCet_update.read_f_write: f sees the typed read of the old value"
        );
        assert!(writes_before_f == 0, "C16.UCet_update.read_f_write: nothing is written before f ran");
        assert!(
            m.msr_value == expect,
            "C16.UCet_update.read_f_write: the result of f is written like UCet::write"
        );
        assert!(
            clean(m, 2)
                && rd(m, 0, IA32_U_CET, old)
                && wr(m, 1, IA32_U_CET, expect)
                && m.regs_same_except(&before, field::MSR),
            "C16.UCet_update.read_f_write: one rdmsr, then exactly one wrmsr to 0x6A0"
        );
    }

    //@ obligation C16 C16.SCet_read.decodes_register
    #[kani::proof]
    fn c16_scet_read_decodes_register() {
        verif_hw::reset_symbolic();
        let before = watch(IA32_S_CET);
        let old = before.msr_value;
        kani::assume(canonical(old & !0xfff));
        kani::cover!(true, "c16_scet_read_decodes_register: reachable");
        let (flags, page) = SCet::read();
        let m = verif_hw::m();
        assert!(
            flags.bits() == old & CET_MODELLED,
            "C16.SCet_read.decodes_register: flags == raw & MODELLED"
        );
        assert!(
            page.start_address().as_u64() == old & !0xfff,
            "C16.SCet_read.decodes_register: legacy bitmap page == bits 12-63"
        );
        assert!(
            clean(m, 1) && rd(m, 0, IA32_S_CET, old) && m.regs_same_except(&before, field::NONE),
            "C16.SCet_read.decodes_register: one rdmsr of 0x6A2, nothing changes"
        );
    }

    //@ obligation C16 C16.SCet_write.read_back
    #[kani::proof]
    fn c16_scet_write_read_back() {
        verif_hw::reset_symbolic();
        let before = watch(IA32_S_CET);
        let flags = CetFlags::from_bits_retain(kani::any::<u64>() & CET_MODELLED);
        let (page, page_addr) = any_page();
        kani::cover!(true, "c16_scet_write_read_back: reachable");
        SCet::write(flags, page);
        let expect = flags.bits() | page_addr;
        {
            let m = verif_hw::m();
            assert!(
                m.msr_value == expect,
                "C16.SCet_write.read_back: register == flags | page address (whole-register write)"
            );
            assert!(
                clean(m, 1) && wr(m, 0, IA32_S_CET, expect) && m.regs_same_except(&before, field::MSR),
                "C16.SCet_write.read_back: exactly one wrmsr to 0x6A2, nothing else changes"
            );
        }
        let (f2, p2) = SCet::read();
        assert!(
            f2 == flags && p2 == page,
            "C16.SCet_write.read_back: read returns the flags and the page written"
        );
    }

    //@ obligation C16 C16.SCet_update.read_f_write
    #[kani::proof]
    fn c16_scet_update_read_f_write() {
        verif_hw::reset_symbolic();
        let before = watch(IA32_S_CET);
        let old = before.msr_value;
        kani::assume(canonical(old & !0xfff));
        let chosen_flags = CetFlags::from_bits_retain(kani::any::<u64>() & CET_MODELLED);
        let (chosen_page, chosen_addr) = any_page();
        kani::cover!(true, "c16_scet_update_read_f_write: reachable");
        let mut calls: u8 = 0;
        let mut seen: (u64, u64) = (0, 0);
        let mut writes_before_f: usize = 0;
        SCet::update(|f, p| {
            calls += 1;
            seen = (f.bits(), p.start_address().as_u64());
            writes_before_f = verif_hw::count(Kind::Wrmsr);
            *f = chosen_flags;
            *p = chosen_page;
        });
        let m = verif_hw::m();
        let expect = chosen_flags.bits() | chosen_addr;
        assert!(calls == 1, "C16.SCet_update.read_f_write: f runs exactly once");
        assert!(
            seen == (old & CET_MODELLED, old & !0xfff),
            "C16.SCet_update.read_f_write: f sees the typed read of the old value"
        );
        assert!(writes_before_f == 0, "C16.SCet_update.read_f_write: nothing is written before f ran");
        assert!(
            m.msr_value == expect,
            "C16.SCet_update.read_f_write: the result of f is written like SCet::write"
        );
        assert!(
            clean(m, 2)
                && rd(m, 0, IA32_S_CET, old)
                && wr(m, 1, IA32_S_CET, expect)
                && m.regs_same_except(&before, field::MSR),
            "C16.SCet_update.read_f_write: one rdmsr, then exactly one wrmsr to 0x6A2"
        );
    }

    // ------------------------------------------------------------------ Pat
    // IA32_PAT: eight 8-bit entries, entry i in bits 8i .. 8i+7; encodings
    // 0 UC, 1 WC, 4 WT, 5 WP, 6 WB, 7 UC- (SDM vol. 3A table 11-10). WRMSR raises
    // #GP for the reserved encodings 2, 3 and for any of bits 3-7 of an entry,
    // so the register cannot hold them: prior contents are assumed to consist of
    // valid entries (Pat::read unwraps the decode).

    fn pat_num(t: PatMemoryType) -> u64 {
        match t {
            PatMemoryType::StrongUncacheable => 0,
            PatMemoryType::WriteCombining => 1,
            PatMemoryType::WriteThrough => 4,
            PatMemoryType::WriteProtected => 5,
            PatMemoryType::WriteBack => 6,
            PatMemoryType::Uncacheable => 7,
        }
    }
    fn pat_entry_valid(b: u64) -> bool {
        b == 0 || b == 1 || b == 4 || b == 5 || b == 6 || b == 7
    }
    fn any_pat() -> PatMemoryType {
        match kani::any::<u8>() % 6 {
            0 => PatMemoryType::StrongUncacheable,
            1 => PatMemoryType::WriteCombining,
            2 => PatMemoryType::WriteThrough,
            3 => PatMemoryType::WriteProtected,
            4 => PatMemoryType::WriteBack,
            _ => PatMemoryType::Uncacheable,
        }
    }
    fn pat_raw_valid(raw: u64) -> bool {
        pat_entry_valid(raw & 0xff)
            && pat_entry_valid((raw >> 8) & 0xff)
            && pat_entry_valid((raw >> 16) & 0xff)
            && pat_entry_valid((raw >> 24) & 0xff)
            && pat_entry_valid((raw >> 32) & 0xff)
            && pat_entry_valid((raw >> 40) & 0xff)
            && pat_entry_valid((raw >> 48) & 0xff)
            && pat_entry_valid(raw >> 56)
    }
    fn pat_pack(t: &[PatMemoryType; 8]) -> u64 {
        pat_num(t[0])
            | pat_num(t[1]) << 8
            | pat_num(t[2]) << 16
            | pat_num(t[3]) << 24
            | pat_num(t[4]) << 32
            | pat_num(t[5]) << 40
            | pat_num(t[6]) << 48
            | pat_num(t[7]) << 56
    }

    //@ obligation C16 C16.Pat_read.decodes_entries
    #[kani::proof]
    #[kani::unwind(9)]
    fn c16_pat_read_decodes_entries() {
        verif_hw::reset_symbolic();
        let before = watch(IA32_PAT);
        let old = before.msr_value;
        kani::assume(pat_raw_valid(old));
        kani::cover!(true, "c16_pat_read_decodes_entries: reachable");
        let t = Pat::read();
        let m = verif_hw::m();
        assert!(
            pat_pack(&t) == old,
            "C16.Pat_read.decodes_entries: entry i is the memory type encoded in bits 8i .. 8i+7"
        );
        assert!(
            clean(m, 1) && rd(m, 0, IA32_PAT, old) && m.regs_same_except(&before, field::NONE),
            "C16.Pat_read.decodes_entries: one rdmsr of 0x277, nothing changes"
        );
    }

    //@ obligation C16 C16.Pat_write.read_back
    #[kani::proof]
    #[kani::unwind(9)]
    fn c16_pat_write_read_back() {
        verif_hw::reset_symbolic();
        let before = watch(IA32_PAT);
        let table = [
            any_pat(), any_pat(), any_pat(), any_pat(), any_pat(), any_pat(), any_pat(), any_pat(),
        ];
        kani::cover!(true, "c16_pat_write_read_back: reachable");
        unsafe { Pat::write(table) };
        let expect = pat_pack(&table);
        {
            let m = verif_hw::m();
            assert!(
                m.msr_value == expect,
                "C16.Pat_write.read_back: PAT == the eight encodings, entry i in byte i"
            );
            assert!(
                clean(m, 1) && wr(m, 0, IA32_PAT, expect) && m.regs_same_except(&before, field::MSR),
                "C16.Pat_write.read_back: exactly one wrmsr to 0x277, nothing else changes"
            );
        }
        let back = Pat::read();
        assert!(back == table, "C16.Pat_write.read_back: read returns the table written");
    }

    // ------------------------------------------------------------- ApicBase

    //@ obligation C16 C16.ApicBase_read.decodes_register
    //@ obligation C16 C16.ApicBase_read_raw.frame_and_raw
    #[kani::proof]
    fn c16_apicbase_read_decodes_register() {
        verif_hw::reset_symbolic();
        let before = watch(IA32_APIC_BASE);
        let old = before.msr_value;
        kani::cover!(true, "c16_apicbase_read_decodes_register: reachable");
        let (frame, flags) = ApicBase::read();
        {
            let m = verif_hw::m();
            assert!(
                frame.start_address().as_u64() == old & PHYS_FRAME_MASK,
                "C16.ApicBase_read.decodes_register: frame is bits 12-51"
            );
            assert!(
                flags.bits() == old & APIC_FLAGS_MODELLED,
                "C16.ApicBase_read.decodes_register: flags == raw & MODELLED"
            );
            assert!(
                clean(m, 1) && rd(m, 0, IA32_APIC_BASE, old) && m.regs_same_except(&before, field::NONE),
                "C16.ApicBase_read.decodes_register: one rdmsr of 0x1B, nothing changes"
            );
        }
        let (frame2, raw) = ApicBase::read_raw();
        let m = verif_hw::m();
        assert!(
            frame2.start_address().as_u64() == old & PHYS_FRAME_MASK && raw == old,
            "C16.ApicBase_read_raw.frame_and_raw: (frame of bits 12-51, all 64 bits)"
        );
        assert!(
            clean(m, 2) && rd(m, 1, IA32_APIC_BASE, old) && m.regs_same_except(&before, field::NONE),
            "C16.ApicBase_read_raw.frame_and_raw: one rdmsr of 0x1B, nothing changes"
        );
    }

    //@ obligation C16 C16.ApicBase_write_raw.stores_exactly
    #[kani::proof]
    fn c16_apicbase_write_raw_stores_exactly() {
        verif_hw::reset_symbolic();
        let before = watch(IA32_APIC_BASE);
        let (frame, addr) = any_frame();
        let flags: u64 = kani::any();
        kani::cover!(true, "c16_apicbase_write_raw_stores_exactly: reachable");
        unsafe { ApicBase::write_raw(frame, flags) };
        let m = verif_hw::m();
        assert!(
            m.msr_value == flags | addr,
            "C16.ApicBase_write_raw.stores_exactly: register == flags | frame address, no old bit survives"
        );
        assert!(
            clean(m, 1) && wr(m, 0, IA32_APIC_BASE, flags | addr) && m.regs_same_except(&before, field::MSR),
            "C16.ApicBase_write_raw.stores_exactly: exactly one wrmsr to 0x1B, nothing else changes"
        );
    }

    /// EXPECTED FINDING D3: `ApicBase::write` computes
    /// `reserved = old & !ApicBaseFlags::all()`, which still contains the OLD
    /// base (bits 12-51), and ORs the new frame onto it. The statement asks that
    /// a typed write stores the given fields (frame AND flags), keeps only the
    /// bits the type does not model, and that the next typed read returns what
    /// was written. This harness is that statement; it is not weakened.
    //@ obligation C16 C16.ApicBase_write.stores_base_and_flags
    #[kani::proof]
    fn c16_apicbase_write_stores_base_and_flags() {
        verif_hw::reset_symbolic();
        let before = watch(IA32_APIC_BASE);
        let old = before.msr_value;
        let (frame, addr) = any_frame();
        let flags = ApicBaseFlags::from_bits_retain(kani::any::<u64>() & APIC_FLAGS_MODELLED);
        kani::cover!(true, "c16_apicbase_write_stores_base_and_flags: reachable");
        unsafe { ApicBase::write(frame, flags) };
        let modelled = PHYS_FRAME_MASK | APIC_FLAGS_MODELLED;
        let expect = (old & !modelled) | addr | flags.bits();
        {
            let m = verif_hw::m();
            assert!(
                m.msr_value == expect,
                "C16.ApicBase_write.stores_base_and_flags: new == (old & !(BASE | FLAGS)) | frame | flags"
            );
        }
        let (f2, fl2) = ApicBase::read();
        assert!(
            f2 == frame && fl2 == flags,
            "C16.ApicBase_write.stores_base_and_flags: the next typed read returns the frame and flags written"
        );
    }

    /// What does hold for ApicBase::write on every input (so that edits to the
    /// flag / reserved-bit / register-number handling are still seen while the
    /// harness above is failing): outside the base field the result is exact.
    //@ obligation C16 C16.ApicBase_write.flags_and_reserved
    #[kani::proof]
    fn c16_apicbase_write_flags_and_reserved() {
        verif_hw::reset_symbolic();
        let before = watch(IA32_APIC_BASE);
        let old = before.msr_value;
        let (frame, addr) = any_frame();
        let flags = ApicBaseFlags::from_bits_retain(kani::any::<u64>() & APIC_FLAGS_MODELLED);
        kani::cover!(true, "c16_apicbase_write_flags_and_reserved: reachable");
        unsafe { ApicBase::write(frame, flags) };
        let m = verif_hw::m();
        let new = m.msr_value;
        assert!(
            new & !PHYS_FRAME_MASK == (old & !(PHYS_FRAME_MASK | APIC_FLAGS_MODELLED)) | flags.bits(),
            "C16.ApicBase_write.flags_and_reserved: outside bits 12-51: flags stored, unmodelled bits preserved"
        );
        assert!(
            new & addr == addr,
            "C16.ApicBase_write.flags_and_reserved: every bit of the new frame address is set"
        );
        assert!(
            clean(m, 2) && rd(m, 0, IA32_APIC_BASE, old) && wr(m, 1, IA32_APIC_BASE, new),
            "C16.ApicBase_write.flags_and_reserved: one rdmsr then exactly one wrmsr, both to 0x1B"
        );
        assert!(
            m.regs_same_except(&before, field::MSR),
            "C16.ApicBase_write.flags_and_reserved: no other register changes"
        );
    }
}
