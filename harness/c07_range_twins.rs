//@ include-into src/lib.rs
//
// E1 TWINS of the C07 range obligations: `PageRange`, `PageRangeInclusive`,
// `PhysFrameRange`, `PhysFrameRangeInclusive` (is_empty, len, size, next) and
// `PageRange<Size2MiB>::as_4kib_page_range`. Same obligation NAMES as in
// /verif/spec/page.spec.rs and /verif/spec/frame.spec.rs (DESIGN 2, twin rule).
//
// The Verus contracts describe a range by the SEQUENCE of start addresses it
// stands for (`seq_excl` / `seq_incl`: lo, lo + S, lo + 2S, ...). Executable
// form used here, for bounds that are multiples of S:
//   count_excl(s, e) = (e - s) / S      if s <  e, else 0
//   count_incl(s, e) = (e - s) / S + 1  if s <= e, else 0
//   the i-th item is s + i * S
// ONE step from an ARBITRARY well-formed range (symbolic bounds) is proved;
// "yields exactly the items from start to end in ascending order, len() of
// them" follows by induction over the number of calls, because the step
// contract says: next() returns item 0 and leaves a well-formed range that
// stands for items 1.. (same argument as `lemma_range_contents` on the Verus
// side). "Stands for items 1.." is compared on the item SEQUENCE, not on the
// (start, end) pair: n' == n - 1 and, if n' > 0, the new first item is the old
// second one (for multiples of S this fixes the whole sequence). The
// inclusive iterators may shrink from either end when one item is left
// (`end -= 1` instead of `start += 1` at the last page of a half / the last
// physical frame), which the sequence view allows and the pair view would not.
// No panic: any reachable panic fails the harness; the covers pin down that
// start == end == last page of either half / last frame is among the inputs.
//
// Well-formed (the Verus precondition): page bounds canonical, S-aligned and
// in the same canonical half (`is_empty` of `PageRange`: any two well-formed
// pages); frame bounds below 2^52 and S-aligned.
// Generic in S: one harness covers the three sizes through a symbolic selector
// (the size literal is passed next to the type, never read from the crate).
// `#[kani::solver(minisat)]`: measured about twice as fast as the default solver on every harness of this file.
#[cfg(kani)]
#[allow(unused_imports, clippy::all)]
mod verif_c07_range_twins {
    use super::*;
    use crate::structures::paging::frame::{PhysFrameRange, PhysFrameRangeInclusive};
    use crate::structures::paging::page::{PageRange, PageRangeInclusive};
    use crate::structures::paging::{Page, PageSize, PhysFrame, Size1GiB, Size2MiB, Size4KiB};

    /// Checks every listed clause on its own path: Kani's `assert!` also ASSUMES its condition afterwards, so in a
    /// plain sequence a failing earlier clause would hide a failing later one (and with it the later obligation).
    macro_rules! check_each {
        ($( $c:expr => $m:literal ),+ $(,)?) => {{
            let pick: u8 = kani::any();
            let mut k: u8 = 0;
            $(
                if pick == k {
                    assert!($c, $m);
                }
                k += 1;
            )+
            let _ = k;
        }};
    }

    const TWO52: u64 = 0x0010_0000_0000_0000;

    fn canonical(a: u64) -> bool {
        let top = a >> 47;
        top == 0 || top == 0x1_ffff
    }

    fn same_half(a: u64, b: u64) -> bool {
        canonical(a) && canonical(b) && (a >> 47) == (b >> 47)
    }

    fn any_page<S: PageSize>(size: u64) -> (u64, Page<S>) {
        let a: u64 = kani::any();
        kani::assume(canonical(a) && a % size == 0);
        (a, Page::from_start_address(VirtAddr::new(a)).unwrap())
    }

    fn any_frame<S: PageSize>(size: u64) -> (u64, PhysFrame<S>) {
        let a: u64 = kani::any();
        kani::assume(a < TWO52 && a % size == 0);
        (a, PhysFrame::from_start_address(PhysAddr::new(a)).unwrap())
    }

    fn count_excl(s: u64, e: u64, size: u64) -> u64 {
        if s < e {
            (e - s) / size
        } else {
            0
        }
    }

    fn count_incl(s: u64, e: u64, size: u64) -> u64 {
        if s <= e {
            (e - s) / size + 1
        } else {
            0
        }
    }

    fn wf_page_bounds(s: u64, e: u64, size: u64) -> bool {
        s % size == 0 && e % size == 0 && same_half(s, e)
    }

    fn wf_frame_bounds(s: u64, e: u64, size: u64) -> bool {
        s % size == 0 && e % size == 0 && s < TWO52 && e < TWO52
    }

    /// (n0 items before, item returned, n1 items after, first item after) against "next() peels off item 0"
    fn step_ok(s0: u64, n0: u64, item: Option<u64>, s1: u64, n1: u64, size: u64) -> bool {
        item == Some(s0) && n1 == n0 - 1 && (n1 == 0 || s1 == s0 + size)
    }

    // ================================================================ PageRange<S>

    fn pagerange_is_empty<S: PageSize>(size: u64) {
        let (s, x) = any_page::<S>(size);
        let (e, y) = any_page::<S>(size);
        let r = PageRange { start: x, end: y }.is_empty();
        check_each! {
            r == (s >= e) && r == (count_excl(s, e, size) == 0)
                => "C07.PageRange_is_empty.iff_no_items: empty exactly when the range stands for no page",
        }
    }

    //@ obligation C07 C07.PageRange_is_empty.iff_no_items
    #[kani::proof]
    #[kani::solver(minisat)]
    fn c07_twin_pagerange_is_empty() {
        let sel: u8 = kani::any();
        kani::assume(sel < 3);
        kani::cover!(true, "c07_twin_pagerange_is_empty: reachable");
        match sel {
            0 => pagerange_is_empty::<Size4KiB>(4096),
            1 => pagerange_is_empty::<Size2MiB>(0x20_0000),
            _ => pagerange_is_empty::<Size1GiB>(0x4000_0000),
        }
    }

    fn pagerange_len_size<S: PageSize>(size: u64) {
        let (s, x) = any_page::<S>(size);
        let (e, y) = any_page::<S>(size);
        kani::assume(same_half(s, e));
        let r = PageRange { start: x, end: y };
        let n = count_excl(s, e, size);
        check_each! {
            r.len() == n
                => "C07.PageRange_len.equals_item_count: len() == number of pages from start to end (exclusive)",
            r.size() as u128 == n as u128 * size as u128
                => "C07.PageRange_size.len_times_page_size: size() == len() * SIZE",
        }
    }

    //@ obligation C07 C07.PageRange_len.equals_item_count
    //@ obligation C07 C07.PageRange_size.len_times_page_size
    #[kani::proof]
    #[kani::solver(minisat)]
    fn c07_twin_pagerange_len_size() {
        let sel: u8 = kani::any();
        kani::assume(sel < 3);
        kani::cover!(true, "c07_twin_pagerange_len_size: reachable");
        match sel {
            0 => pagerange_len_size::<Size4KiB>(4096),
            1 => pagerange_len_size::<Size2MiB>(0x20_0000),
            _ => pagerange_len_size::<Size1GiB>(0x4000_0000),
        }
    }

    fn pagerange_next<S: PageSize>(size: u64) {
        let (s0, x) = any_page::<S>(size);
        let (e0, y) = any_page::<S>(size);
        kani::assume(same_half(s0, e0));
        let mut r = PageRange { start: x, end: y };
        let item = r.next().map(|p| p.start_address().as_u64());
        let (s1, e1) = (r.start.start_address().as_u64(), r.end.start_address().as_u64());
        let n0 = count_excl(s0, e0, size);
        kani::cover!(n0 == 1 && e0 == 0x8000_0000_0000 - size, "c07 pagerange_next: last item before the last page of the lower half");
        check_each! {
            wf_page_bounds(s1, e1, size)
                => "C07.PageRange_next.yields_first_and_shrinks_no_panic: the remaining range is well-formed",
        }
        if n0 == 0 {
            check_each! {
                item.is_none() && s1 == s0 && e1 == e0
                    => "C07.PageRange_next.yields_first_and_shrinks_no_panic: an empty range yields None and is unchanged",
            }
        } else {
            check_each! {
                step_ok(s0, n0, item, s1, count_excl(s1, e1, size), size)
                    => "C07.PageRange_next.yields_first_and_shrinks_no_panic: yields the first page; the rest stands for the remaining pages",
            }
        }
    }

    //@ obligation C07 C07.PageRange_next.yields_first_and_shrinks_no_panic
    #[kani::proof]
    #[kani::solver(minisat)]
    fn c07_twin_pagerange_next() {
        let sel: u8 = kani::any();
        kani::assume(sel < 3);
        kani::cover!(true, "c07_twin_pagerange_next: reachable");
        match sel {
            0 => pagerange_next::<Size4KiB>(4096),
            1 => pagerange_next::<Size2MiB>(0x20_0000),
            _ => pagerange_next::<Size1GiB>(0x4000_0000),
        }
    }

    // requires wf_range(self) for 2 MiB pages; ensures same start / end addresses and wf_range for 4 KiB pages
    //@ obligation C07 C07.PageRange_as_4kib_page_range.same_bytes
    #[kani::proof]
    #[kani::solver(minisat)]
    fn c07_twin_pagerange_as_4kib_page_range() {
        let (s, x) = any_page::<Size2MiB>(0x20_0000);
        let (e, y) = any_page::<Size2MiB>(0x20_0000);
        kani::assume(same_half(s, e));
        kani::cover!(true, "c07_twin_pagerange_as_4kib_page_range: reachable");
        let r = PageRange { start: x, end: y }.as_4kib_page_range();
        let (s1, e1) = (r.start.start_address().as_u64(), r.end.start_address().as_u64());
        check_each! {
            s1 == s && e1 == e
                => "C07.PageRange_as_4kib_page_range.same_bytes: the 4 KiB range has the same start and end addresses",
            wf_page_bounds(s1, e1, 4096)
                => "C07.PageRange_as_4kib_page_range.same_bytes: the 4 KiB range is well-formed",
        }
        // (same start and end addresses = same bytes; len()/size() of both ranges have their own obligations)
    }

    // ================================================================ PageRangeInclusive<S>

    fn pagerange_incl_is_empty_len_size<S: PageSize>(size: u64) {
        let (s, x) = any_page::<S>(size);
        let (e, y) = any_page::<S>(size);
        kani::assume(same_half(s, e));
        let r = PageRangeInclusive { start: x, end: y };
        let n = count_incl(s, e, size);
        let emp = r.is_empty();
        check_each! {
            emp == (s > e) && emp == (n == 0)
                => "C07.PageRangeInclusive_is_empty.iff_no_items: empty exactly when the range stands for no page",
            r.len() == n
                => "C07.PageRangeInclusive_len.equals_item_count: len() == number of pages from start to end (inclusive)",
            r.size() as u128 == n as u128 * size as u128
                => "C07.PageRangeInclusive_size.len_times_page_size: size() == len() * SIZE",
        }
    }

    //@ obligation C07 C07.PageRangeInclusive_is_empty.iff_no_items
    //@ obligation C07 C07.PageRangeInclusive_len.equals_item_count
    //@ obligation C07 C07.PageRangeInclusive_size.len_times_page_size
    #[kani::proof]
    #[kani::solver(minisat)]
    fn c07_twin_pagerangeinclusive_is_empty_len_size() {
        let sel: u8 = kani::any();
        kani::assume(sel < 3);
        kani::cover!(true, "c07_twin_pagerangeinclusive_is_empty_len_size: reachable");
        match sel {
            0 => pagerange_incl_is_empty_len_size::<Size4KiB>(4096),
            1 => pagerange_incl_is_empty_len_size::<Size2MiB>(0x20_0000),
            _ => pagerange_incl_is_empty_len_size::<Size1GiB>(0x4000_0000),
        }
    }

    fn pagerange_incl_next<S: PageSize>(size: u64) {
        let (s0, x) = any_page::<S>(size);
        let (e0, y) = any_page::<S>(size);
        kani::assume(same_half(s0, e0));
        let mut r = PageRangeInclusive { start: x, end: y };
        kani::cover!(s0 == e0 && s0 == 0x8000_0000_0000 - size, "c07 pagerange_incl_next: start == end == last page of the lower half");
        kani::cover!(s0 == e0 && s0 == 0u64.wrapping_sub(size), "c07 pagerange_incl_next: start == end == last page of the upper half");
        kani::cover!(s0 == e0 && s0 == 0xffff_8000_0000_0000, "c07 pagerange_incl_next: start == end == first page of the upper half");
        let item = r.next().map(|p| p.start_address().as_u64());
        let (s1, e1) = (r.start.start_address().as_u64(), r.end.start_address().as_u64());
        let n0 = count_incl(s0, e0, size);
        check_each! {
            wf_page_bounds(s1, e1, size)
                => "C07.PageRangeInclusive_next.yields_first_and_shrinks_no_panic: the remaining range is well-formed",
        }
        if n0 == 0 {
            check_each! {
                item.is_none() && s1 == s0 && e1 == e0
                    => "C07.PageRangeInclusive_next.yields_first_and_shrinks_no_panic: an empty range yields None and is unchanged",
            }
        } else {
            check_each! {
                step_ok(s0, n0, item, s1, count_incl(s1, e1, size), size)
                    => "C07.PageRangeInclusive_next.yields_first_and_shrinks_no_panic: yields the first page; the rest stands for the remaining pages",
            }
        }
    }

    //@ obligation C07 C07.PageRangeInclusive_next.yields_first_and_shrinks_no_panic
    #[kani::proof]
    #[kani::solver(minisat)]
    fn c07_twin_pagerangeinclusive_next() {
        let sel: u8 = kani::any();
        kani::assume(sel < 3);
        kani::cover!(true, "c07_twin_pagerangeinclusive_next: reachable");
        match sel {
            0 => pagerange_incl_next::<Size4KiB>(4096),
            1 => pagerange_incl_next::<Size2MiB>(0x20_0000),
            _ => pagerange_incl_next::<Size1GiB>(0x4000_0000),
        }
    }

    // ================================================================ PhysFrameRange<S>

    fn framerange_is_empty_len_size<S: PageSize>(size: u64) {
        let (s, x) = any_frame::<S>(size);
        let (e, y) = any_frame::<S>(size);
        let r = PhysFrameRange { start: x, end: y };
        let n = count_excl(s, e, size);
        let emp = r.is_empty();
        check_each! {
            emp == (s >= e) && emp == (n == 0)
                => "C07.PhysFrameRange_is_empty.iff_no_items: empty exactly when the range stands for no frame",
            r.len() == n
                => "C07.PhysFrameRange_len.equals_item_count: len() == number of frames from start to end (exclusive)",
            r.size() as u128 == n as u128 * size as u128
                => "C07.PhysFrameRange_size.len_times_frame_size: size() == len() * SIZE",
        }
    }

    //@ obligation C07 C07.PhysFrameRange_is_empty.iff_no_items
    //@ obligation C07 C07.PhysFrameRange_len.equals_item_count
    //@ obligation C07 C07.PhysFrameRange_size.len_times_frame_size
    #[kani::proof]
    #[kani::solver(minisat)]
    fn c07_twin_physframerange_is_empty_len_size() {
        let sel: u8 = kani::any();
        kani::assume(sel < 3);
        kani::cover!(true, "c07_twin_physframerange_is_empty_len_size: reachable");
        match sel {
            0 => framerange_is_empty_len_size::<Size4KiB>(4096),
            1 => framerange_is_empty_len_size::<Size2MiB>(0x20_0000),
            _ => framerange_is_empty_len_size::<Size1GiB>(0x4000_0000),
        }
    }

    fn framerange_next<S: PageSize>(size: u64) {
        let (s0, x) = any_frame::<S>(size);
        let (e0, y) = any_frame::<S>(size);
        let mut r = PhysFrameRange { start: x, end: y };
        let item = r.next().map(|f| f.start_address().as_u64());
        let (s1, e1) = (r.start.start_address().as_u64(), r.end.start_address().as_u64());
        let n0 = count_excl(s0, e0, size);
        kani::cover!(n0 == 1 && e0 == TWO52 - size, "c07 framerange_next: last item before the last frame");
        check_each! {
            wf_frame_bounds(s1, e1, size)
                => "C07.PhysFrameRange_next.yields_first_and_shrinks_no_panic: the remaining range is well-formed",
        }
        if n0 == 0 {
            check_each! {
                item.is_none() && s1 == s0 && e1 == e0
                    => "C07.PhysFrameRange_next.yields_first_and_shrinks_no_panic: an empty range yields None and is unchanged",
            }
        } else {
            check_each! {
                step_ok(s0, n0, item, s1, count_excl(s1, e1, size), size)
                    => "C07.PhysFrameRange_next.yields_first_and_shrinks_no_panic: yields the first frame; the rest stands for the remaining frames",
            }
        }
    }

    //@ obligation C07 C07.PhysFrameRange_next.yields_first_and_shrinks_no_panic
    #[kani::proof]
    #[kani::solver(minisat)]
    fn c07_twin_physframerange_next() {
        let sel: u8 = kani::any();
        kani::assume(sel < 3);
        kani::cover!(true, "c07_twin_physframerange_next: reachable");
        match sel {
            0 => framerange_next::<Size4KiB>(4096),
            1 => framerange_next::<Size2MiB>(0x20_0000),
            _ => framerange_next::<Size1GiB>(0x4000_0000),
        }
    }

    // ================================================================ PhysFrameRangeInclusive<S>

    fn framerange_incl_is_empty_len_size<S: PageSize>(size: u64) {
        let (s, x) = any_frame::<S>(size);
        let (e, y) = any_frame::<S>(size);
        let r = PhysFrameRangeInclusive { start: x, end: y };
        let n = count_incl(s, e, size);
        let emp = r.is_empty();
        check_each! {
            emp == (s > e) && emp == (n == 0)
                => "C07.PhysFrameRangeInclusive_is_empty.iff_no_items: empty exactly when the range stands for no frame",
            r.len() == n
                => "C07.PhysFrameRangeInclusive_len.equals_item_count: len() == number of frames from start to end (inclusive)",
            r.size() as u128 == n as u128 * size as u128
                => "C07.PhysFrameRangeInclusive_size.len_times_frame_size: size() == len() * SIZE",
        }
    }

    //@ obligation C07 C07.PhysFrameRangeInclusive_is_empty.iff_no_items
    //@ obligation C07 C07.PhysFrameRangeInclusive_len.equals_item_count
    //@ obligation C07 C07.PhysFrameRangeInclusive_size.len_times_frame_size
    #[kani::proof]
    #[kani::solver(minisat)]
    fn c07_twin_physframerangeinclusive_is_empty_len_size() {
        let sel: u8 = kani::any();
        kani::assume(sel < 3);
        kani::cover!(true, "c07_twin_physframerangeinclusive_is_empty_len_size: reachable");
        match sel {
            0 => framerange_incl_is_empty_len_size::<Size4KiB>(4096),
            1 => framerange_incl_is_empty_len_size::<Size2MiB>(0x20_0000),
            _ => framerange_incl_is_empty_len_size::<Size1GiB>(0x4000_0000),
        }
    }

    fn framerange_incl_next<S: PageSize>(size: u64) {
        let (s0, x) = any_frame::<S>(size);
        let (e0, y) = any_frame::<S>(size);
        let mut r = PhysFrameRangeInclusive { start: x, end: y };
        kani::cover!(s0 == e0 && s0 == TWO52 - size, "c07 framerange_incl_next: start == end == last physical frame");
        kani::cover!(s0 < e0 && e0 == TWO52 - size, "c07 framerange_incl_next: several frames ending at the last physical frame");
        let item = r.next().map(|f| f.start_address().as_u64());
        let (s1, e1) = (r.start.start_address().as_u64(), r.end.start_address().as_u64());
        let n0 = count_incl(s0, e0, size);
        check_each! {
            wf_frame_bounds(s1, e1, size)
                => "C07.PhysFrameRangeInclusive_next.yields_first_and_shrinks_no_panic: the remaining range is well-formed",
        }
        if n0 == 0 {
            check_each! {
                item.is_none() && s1 == s0 && e1 == e0
                    => "C07.PhysFrameRangeInclusive_next.yields_first_and_shrinks_no_panic: an empty range yields None and is unchanged",
            }
        } else {
            check_each! {
                step_ok(s0, n0, item, s1, count_incl(s1, e1, size), size)
                    => "C07.PhysFrameRangeInclusive_next.yields_first_and_shrinks_no_panic: yields the first frame; the rest stands for the remaining frames",
            }
        }
    }

    //@ obligation C07 C07.PhysFrameRangeInclusive_next.yields_first_and_shrinks_no_panic
    #[kani::proof]
    #[kani::solver(minisat)]
    fn c07_twin_physframerangeinclusive_next() {
        let sel: u8 = kani::any();
        kani::assume(sel < 3);
        kani::cover!(true, "c07_twin_physframerangeinclusive_next: reachable");
        match sel {
            0 => framerange_incl_next::<Size4KiB>(4096),
            1 => framerange_incl_next::<Size2MiB>(0x20_0000),
            _ => framerange_incl_next::<Size1GiB>(0x4000_0000),
        }
    }
}
