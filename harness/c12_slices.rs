//@ include-into src/structures/idt.rs
// C12, part 2: range access. For every `RangeBounds<u8>` form the crate
// implements (13 `Index`/`IndexMut` impls plus `slice` / `slice_mut`):
//
//   the call returns  <=>  start >= 32  and  start <= end      (start, end = the
//   half-open range the form denotes: `a..b` -> [a, b), `a..=b` -> [a, b+1),
//   `a..` -> [a, 256), `..b` -> [0, b), `..=b` -> [0, b+1), `..` -> [0, 256),
//   Bound pairs: Included/Excluded/Unbounded per side)
//
//   and then the slice starts at byte 16 * start of the table and has
//   end - start elements (so element k is the descriptor of vector start + k).
//
// "start >= 32" is the property's "refuses anything starting below vector 32";
// "start <= end" is Rust's slice semantics (an inverted range panics, an empty
// one, e.g. `40..40` or `40..=39`, is fine). `..b`, `..=b`, `..` start at 0 and
// are therefore always refused.
//
// (start, end) are computed here from the meaning of the range syntax, not with
// the crate's `condition_slice_bounds`. All 65536 (a, b) pairs are covered
// symbolically; the four access paths (`slice`, `Index`, `slice_mut`,
// `IndexMut`) are all exercised: one after the other in the accepting harness,
// through a symbolic selector in the rejecting (should_panic) harness, which is
// the sound "panics on EVERY such input" formulation of lib/C19_NOTES.md.
//
// Not covered: a `RangeInclusive` in its "exhausted" state (only reachable by
// iterating it to the end; `end_bound()` then reports `Excluded(end)`).
//
// This file is generated text kept under version control (the generator was a
// throw-away script); edit by hand.
#[cfg(kani)]
#[allow(unused_imports, clippy::all)]
mod verif_c12_slices {
    use super::*;

    #[inline(never)]
    fn returned_on_invalid_input() {
        unsafe { core::hint::unreachable_unchecked() }
    }

    /// 0 = Included, 1 = Excluded, 2 = Unbounded.
    fn any_kind() -> u8 {
        let k: u8 = kani::any();
        kani::assume(k < 3);
        k
    }

    fn mk_bound(k: u8, x: u8) -> Bound<u8> {
        match k {
            0 => Included(x),
            1 => Excluded(x),
            _ => Unbounded,
        }
    }

    fn mk_bound_ref(k: u8, x: &u8) -> Bound<&u8> {
        match k {
            0 => Included(x),
            1 => Excluded(x),
            _ => Unbounded,
        }
    }

    /// First vector of a range whose lower bound is of kind `k` with value `x`.
    fn start_of(k: u8, x: u8) -> usize {
        match k {
            0 => x as usize,
            1 => x as usize + 1,
            _ => 0,
        }
    }

    /// One past the last vector of a range whose upper bound is `k`, `x`.
    fn end_of(k: u8, x: u8) -> usize {
        match k {
            0 => x as usize + 1,
            1 => x as usize,
            _ => 256,
        }
    }

    /// The access is allowed: starts at or above vector 32, not inverted.
    fn allowed(start: usize, end: usize) -> bool {
        start >= 32 && start <= end
    }

    /// All four access paths return the slice [16*start, 16*end) of the table.
    macro_rules! accept_paths {
        ($ob:literal, $mk:expr, $s:expr, $e:expr) => {{
            let s: usize = $s;
            let e: usize = $e;
            let mut idt = InterruptDescriptorTable::new();
            let base = &idt as *const InterruptDescriptorTable as *const u8;
            let (p, n) = {
                let sl: &[Entry<HandlerFunc>] = idt.slice($mk);
                (sl.as_ptr() as *const u8, sl.len())
            };
            assert!(
                unsafe { p.offset_from(base) } == 16 * s as isize && n == e - s,
                concat!($ob, ": slice(): pointer == table + 16 * start, length == end - start")
            );
            let (p, n) = {
                let sl: &[Entry<HandlerFunc>] = &idt[$mk];
                (sl.as_ptr() as *const u8, sl.len())
            };
            assert!(
                unsafe { p.offset_from(base) } == 16 * s as isize && n == e - s,
                concat!($ob, ": Index: pointer == table + 16 * start, length == end - start")
            );
            let (p, n) = {
                let sl: &mut [Entry<HandlerFunc>] = idt.slice_mut($mk);
                (sl.as_ptr() as *const u8, sl.len())
            };
            assert!(
                unsafe { p.offset_from(base) } == 16 * s as isize && n == e - s,
                concat!($ob, ": slice_mut(): pointer == table + 16 * start, length == end - start")
            );
            let (p, n) = {
                let sl: &mut [Entry<HandlerFunc>] = &mut idt[$mk];
                (sl.as_ptr() as *const u8, sl.len())
            };
            assert!(
                unsafe { p.offset_from(base) } == 16 * s as isize && n == e - s,
                concat!($ob, ": IndexMut: pointer == table + 16 * start, length == end - start")
            );
        }};
    }

    /// One of the four access paths (symbolic choice); none may return.
    macro_rules! reject_paths {
        ($mk:expr) => {{
            let which: u8 = kani::any();
            kani::assume(which < 4);
            let mut idt = InterruptDescriptorTable::new();
            match which {
                0 => {
                    let _ = idt.slice($mk);
                }
                1 => {
                    let _ = &idt[$mk];
                }
                2 => {
                    let _ = idt.slice_mut($mk);
                }
                _ => {
                    let _ = &mut idt[$mk];
                }
            }
            returned_on_invalid_input();
        }};
    }

    // ---------------------------------------------------------------- Range_u8  (`a..b`)

    //@ obligation C12 C12.Idt_range.Range_u8.returns_entries_from_16_start
    #[kani::proof]
    fn c12_range_u8_accepts() {
        let a: u8 = kani::any();
        let b: u8 = kani::any();
        let s: usize = a as usize; // first vector of the range
        let e: usize = b as usize; // one past its last vector
        kani::assume(allowed(s, e));
        kani::cover!(true, "c12_range_u8_accepts: reachable");
        kani::cover!(s == e, "c12_range_u8_accepts: empty range");
        kani::cover!(s == 32 && e == 255, "c12_range_u8_accepts: 32..255 (vector 255 is not expressible in this form)");
        accept_paths!("C12.Idt_range.Range_u8.returns_entries_from_16_start", a..b, s, e);
    }

    //@ obligation C12 C12.Idt_range.Range_u8.refuses_start_below_32_or_inverted
    #[kani::proof]
    #[kani::should_panic]
    fn c12_range_u8_rejects() {
        let a: u8 = kani::any();
        let b: u8 = kani::any();
        let s: usize = a as usize; // first vector of the range
        let e: usize = b as usize; // one past its last vector
        kani::assume(!allowed(s, e));
        kani::cover!(true, "c12_range_u8_rejects: reachable");
        kani::cover!(s >= 32, "c12_range_u8_rejects: inverted range above 32");
        kani::cover!(s < 32 && e >= 32, "c12_range_u8_rejects: starts below 32, ends above");
        reject_paths!(a..b);
    }

    // ---------------------------------------------------------------- Range_ref_u8  (`&a..&b`)

    //@ obligation C12 C12.Idt_range.Range_ref_u8.returns_entries_from_16_start
    #[kani::proof]
    fn c12_range_ref_u8_accepts() {
        let a: u8 = kani::any();
        let b: u8 = kani::any();
        let s: usize = a as usize; // first vector of the range
        let e: usize = b as usize; // one past its last vector
        kani::assume(allowed(s, e));
        kani::cover!(true, "c12_range_ref_u8_accepts: reachable");
        kani::cover!(s == e, "c12_range_ref_u8_accepts: empty range");
        kani::cover!(s == 32 && e == 255, "c12_range_ref_u8_accepts: 32..255 (vector 255 is not expressible in this form)");
        accept_paths!("C12.Idt_range.Range_ref_u8.returns_entries_from_16_start", &a..&b, s, e);
    }

    //@ obligation C12 C12.Idt_range.Range_ref_u8.refuses_start_below_32_or_inverted
    #[kani::proof]
    #[kani::should_panic]
    fn c12_range_ref_u8_rejects() {
        let a: u8 = kani::any();
        let b: u8 = kani::any();
        let s: usize = a as usize; // first vector of the range
        let e: usize = b as usize; // one past its last vector
        kani::assume(!allowed(s, e));
        kani::cover!(true, "c12_range_ref_u8_rejects: reachable");
        kani::cover!(s >= 32, "c12_range_ref_u8_rejects: inverted range above 32");
        kani::cover!(s < 32 && e >= 32, "c12_range_ref_u8_rejects: starts below 32, ends above");
        reject_paths!(&a..&b);
    }

    // ---------------------------------------------------------------- RangeInclusive_u8  (`a..=b`)

    //@ obligation C12 C12.Idt_range.RangeInclusive_u8.returns_entries_from_16_start
    #[kani::proof]
    fn c12_range_inclusive_u8_accepts() {
        let a: u8 = kani::any();
        let b: u8 = kani::any();
        let s: usize = a as usize; // first vector of the range
        let e: usize = b as usize + 1; // one past its last vector
        kani::assume(allowed(s, e));
        kani::cover!(true, "c12_range_inclusive_u8_accepts: reachable");
        kani::cover!(s == e, "c12_range_inclusive_u8_accepts: empty range");
        kani::cover!(s == 32 && e == 256, "c12_range_inclusive_u8_accepts: all of 32..=255");
        accept_paths!("C12.Idt_range.RangeInclusive_u8.returns_entries_from_16_start", a..=b, s, e);
    }

    //@ obligation C12 C12.Idt_range.RangeInclusive_u8.refuses_start_below_32_or_inverted
    #[kani::proof]
    #[kani::should_panic]
    fn c12_range_inclusive_u8_rejects() {
        let a: u8 = kani::any();
        let b: u8 = kani::any();
        let s: usize = a as usize; // first vector of the range
        let e: usize = b as usize + 1; // one past its last vector
        kani::assume(!allowed(s, e));
        kani::cover!(true, "c12_range_inclusive_u8_rejects: reachable");
        kani::cover!(s >= 32, "c12_range_inclusive_u8_rejects: inverted range above 32");
        kani::cover!(s < 32 && e >= 32, "c12_range_inclusive_u8_rejects: starts below 32, ends above");
        reject_paths!(a..=b);
    }

    // ---------------------------------------------------------------- RangeInclusive_ref_u8  (`&a..=&b`)

    //@ obligation C12 C12.Idt_range.RangeInclusive_ref_u8.returns_entries_from_16_start
    #[kani::proof]
    fn c12_range_inclusive_ref_u8_accepts() {
        let a: u8 = kani::any();
        let b: u8 = kani::any();
        let s: usize = a as usize; // first vector of the range
        let e: usize = b as usize + 1; // one past its last vector
        kani::assume(allowed(s, e));
        kani::cover!(true, "c12_range_inclusive_ref_u8_accepts: reachable");
        kani::cover!(s == e, "c12_range_inclusive_ref_u8_accepts: empty range");
        kani::cover!(s == 32 && e == 256, "c12_range_inclusive_ref_u8_accepts: all of 32..=255");
        accept_paths!("C12.Idt_range.RangeInclusive_ref_u8.returns_entries_from_16_start", &a..=&b, s, e);
    }

    //@ obligation C12 C12.Idt_range.RangeInclusive_ref_u8.refuses_start_below_32_or_inverted
    #[kani::proof]
    #[kani::should_panic]
    fn c12_range_inclusive_ref_u8_rejects() {
        let a: u8 = kani::any();
        let b: u8 = kani::any();
        let s: usize = a as usize; // first vector of the range
        let e: usize = b as usize + 1; // one past its last vector
        kani::assume(!allowed(s, e));
        kani::cover!(true, "c12_range_inclusive_ref_u8_rejects: reachable");
        kani::cover!(s >= 32, "c12_range_inclusive_ref_u8_rejects: inverted range above 32");
        kani::cover!(s < 32 && e >= 32, "c12_range_inclusive_ref_u8_rejects: starts below 32, ends above");
        reject_paths!(&a..=&b);
    }

    // ---------------------------------------------------------------- RangeFrom_u8  (`a..`)

    //@ obligation C12 C12.Idt_range.RangeFrom_u8.returns_entries_from_16_start
    #[kani::proof]
    fn c12_range_from_u8_accepts() {
        let a: u8 = kani::any();
        let s: usize = a as usize; // first vector of the range
        let e: usize = 256; // one past its last vector
        kani::assume(allowed(s, e));
        kani::cover!(true, "c12_range_from_u8_accepts: reachable");
        kani::cover!(s == e, "c12_range_from_u8_accepts: empty range");
        kani::cover!(s == 32 && e == 256, "c12_range_from_u8_accepts: all of 32..=255");
        accept_paths!("C12.Idt_range.RangeFrom_u8.returns_entries_from_16_start", a.., s, e);
    }

    //@ obligation C12 C12.Idt_range.RangeFrom_u8.refuses_start_below_32_or_inverted
    #[kani::proof]
    #[kani::should_panic]
    fn c12_range_from_u8_rejects() {
        let a: u8 = kani::any();
        let s: usize = a as usize; // first vector of the range
        let e: usize = 256; // one past its last vector
        kani::assume(!allowed(s, e));
        kani::cover!(true, "c12_range_from_u8_rejects: reachable");
        kani::cover!(s >= 32, "c12_range_from_u8_rejects: inverted range above 32");
        kani::cover!(s < 32 && e >= 32, "c12_range_from_u8_rejects: starts below 32, ends above");
        reject_paths!(a..);
    }

    // ---------------------------------------------------------------- RangeFrom_ref_u8  (`&a..`)

    //@ obligation C12 C12.Idt_range.RangeFrom_ref_u8.returns_entries_from_16_start
    #[kani::proof]
    fn c12_range_from_ref_u8_accepts() {
        let a: u8 = kani::any();
        let s: usize = a as usize; // first vector of the range
        let e: usize = 256; // one past its last vector
        kani::assume(allowed(s, e));
        kani::cover!(true, "c12_range_from_ref_u8_accepts: reachable");
        kani::cover!(s == e, "c12_range_from_ref_u8_accepts: empty range");
        kani::cover!(s == 32 && e == 256, "c12_range_from_ref_u8_accepts: all of 32..=255");
        accept_paths!("C12.Idt_range.RangeFrom_ref_u8.returns_entries_from_16_start", &a.., s, e);
    }

    //@ obligation C12 C12.Idt_range.RangeFrom_ref_u8.refuses_start_below_32_or_inverted
    #[kani::proof]
    #[kani::should_panic]
    fn c12_range_from_ref_u8_rejects() {
        let a: u8 = kani::any();
        let s: usize = a as usize; // first vector of the range
        let e: usize = 256; // one past its last vector
        kani::assume(!allowed(s, e));
        kani::cover!(true, "c12_range_from_ref_u8_rejects: reachable");
        kani::cover!(s >= 32, "c12_range_from_ref_u8_rejects: inverted range above 32");
        kani::cover!(s < 32 && e >= 32, "c12_range_from_ref_u8_rejects: starts below 32, ends above");
        reject_paths!(&a..);
    }

    // ---------------------------------------------------------------- RangeTo_u8  (`..b`)

    //@ obligation C12 C12.Idt_range.RangeTo_u8.refuses_start_below_32_or_inverted
    #[kani::proof]
    #[kani::should_panic]
    fn c12_range_to_u8_rejects() {
        let b: u8 = kani::any();
        let s: usize = 0; // first vector of the range
        let e: usize = b as usize; // one past its last vector
        kani::assume(!allowed(s, e));
        kani::cover!(true, "c12_range_to_u8_rejects: reachable");
        reject_paths!(..b);
    }

    // ---------------------------------------------------------------- RangeTo_ref_u8  (`..&b`)

    //@ obligation C12 C12.Idt_range.RangeTo_ref_u8.refuses_start_below_32_or_inverted
    #[kani::proof]
    #[kani::should_panic]
    fn c12_range_to_ref_u8_rejects() {
        let b: u8 = kani::any();
        let s: usize = 0; // first vector of the range
        let e: usize = b as usize; // one past its last vector
        kani::assume(!allowed(s, e));
        kani::cover!(true, "c12_range_to_ref_u8_rejects: reachable");
        reject_paths!(..&b);
    }

    // ---------------------------------------------------------------- RangeToInclusive_u8  (`..=b`)

    //@ obligation C12 C12.Idt_range.RangeToInclusive_u8.refuses_start_below_32_or_inverted
    #[kani::proof]
    #[kani::should_panic]
    fn c12_range_to_inclusive_u8_rejects() {
        let b: u8 = kani::any();
        let s: usize = 0; // first vector of the range
        let e: usize = b as usize + 1; // one past its last vector
        kani::assume(!allowed(s, e));
        kani::cover!(true, "c12_range_to_inclusive_u8_rejects: reachable");
        reject_paths!(..=b);
    }

    // ---------------------------------------------------------------- RangeToInclusive_ref_u8  (`..=&b`)

    //@ obligation C12 C12.Idt_range.RangeToInclusive_ref_u8.refuses_start_below_32_or_inverted
    #[kani::proof]
    #[kani::should_panic]
    fn c12_range_to_inclusive_ref_u8_rejects() {
        let b: u8 = kani::any();
        let s: usize = 0; // first vector of the range
        let e: usize = b as usize + 1; // one past its last vector
        kani::assume(!allowed(s, e));
        kani::cover!(true, "c12_range_to_inclusive_ref_u8_rejects: reachable");
        reject_paths!(..=&b);
    }

    // ---------------------------------------------------------------- RangeFull  (`..`)

    //@ obligation C12 C12.Idt_range.RangeFull.refuses_start_below_32_or_inverted
    #[kani::proof]
    #[kani::should_panic]
    fn c12_range_full_rejects() {
        let s: usize = 0; // first vector of the range
        let e: usize = 256; // one past its last vector
        kani::assume(!allowed(s, e));
        kani::cover!(true, "c12_range_full_rejects: reachable");
        reject_paths!(..);
    }

    // ---------------------------------------------------------------- BoundPair_u8  (`(mk_bound(ka, a), mk_bound(kb, b))`)

    //@ obligation C12 C12.Idt_range.BoundPair_u8.returns_entries_from_16_start
    #[kani::proof]
    fn c12_bound_pair_u8_accepts() {
        let ka = any_kind();
        let kb = any_kind();
        let a: u8 = kani::any();
        let b: u8 = kani::any();
        let s: usize = start_of(ka, a); // first vector of the range
        let e: usize = end_of(kb, b); // one past its last vector
        kani::assume(allowed(s, e));
        kani::cover!(true, "c12_bound_pair_u8_accepts: reachable");
        kani::cover!(s == e, "c12_bound_pair_u8_accepts: empty range");
        kani::cover!(s == 32 && e == 256, "c12_bound_pair_u8_accepts: all of 32..=255");
        accept_paths!("C12.Idt_range.BoundPair_u8.returns_entries_from_16_start", (mk_bound(ka, a), mk_bound(kb, b)), s, e);
    }

    //@ obligation C12 C12.Idt_range.BoundPair_u8.refuses_start_below_32_or_inverted
    #[kani::proof]
    #[kani::should_panic]
    fn c12_bound_pair_u8_rejects() {
        let ka = any_kind();
        let kb = any_kind();
        let a: u8 = kani::any();
        let b: u8 = kani::any();
        let s: usize = start_of(ka, a); // first vector of the range
        let e: usize = end_of(kb, b); // one past its last vector
        kani::assume(!allowed(s, e));
        kani::cover!(true, "c12_bound_pair_u8_rejects: reachable");
        kani::cover!(s >= 32, "c12_bound_pair_u8_rejects: inverted range above 32");
        kani::cover!(s < 32 && e >= 32, "c12_bound_pair_u8_rejects: starts below 32, ends above");
        reject_paths!((mk_bound(ka, a), mk_bound(kb, b)));
    }

    // ---------------------------------------------------------------- BoundPair_ref_u8  (`(mk_bound_ref(ka, &a), mk_bound_ref(kb, &b))`)

    //@ obligation C12 C12.Idt_range.BoundPair_ref_u8.returns_entries_from_16_start
    #[kani::proof]
    fn c12_bound_pair_ref_u8_accepts() {
        let ka = any_kind();
        let kb = any_kind();
        let a: u8 = kani::any();
        let b: u8 = kani::any();
        let s: usize = start_of(ka, a); // first vector of the range
        let e: usize = end_of(kb, b); // one past its last vector
        kani::assume(allowed(s, e));
        kani::cover!(true, "c12_bound_pair_ref_u8_accepts: reachable");
        kani::cover!(s == e, "c12_bound_pair_ref_u8_accepts: empty range");
        kani::cover!(s == 32 && e == 256, "c12_bound_pair_ref_u8_accepts: all of 32..=255");
        accept_paths!("C12.Idt_range.BoundPair_ref_u8.returns_entries_from_16_start", (mk_bound_ref(ka, &a), mk_bound_ref(kb, &b)), s, e);
    }

    //@ obligation C12 C12.Idt_range.BoundPair_ref_u8.refuses_start_below_32_or_inverted
    #[kani::proof]
    #[kani::should_panic]
    fn c12_bound_pair_ref_u8_rejects() {
        let ka = any_kind();
        let kb = any_kind();
        let a: u8 = kani::any();
        let b: u8 = kani::any();
        let s: usize = start_of(ka, a); // first vector of the range
        let e: usize = end_of(kb, b); // one past its last vector
        kani::assume(!allowed(s, e));
        kani::cover!(true, "c12_bound_pair_ref_u8_rejects: reachable");
        kani::cover!(s >= 32, "c12_bound_pair_ref_u8_rejects: inverted range above 32");
        kani::cover!(s < 32 && e >= 32, "c12_bound_pair_ref_u8_rejects: starts below 32, ends above");
        reject_paths!((mk_bound_ref(ka, &a), mk_bound_ref(kb, &b)));
    }

}
