//@ include-into src/instructions/tlb.rs
//
// C11, tlb.rs part: the standalone flush operations invalidate exactly what
// they are asked to, observed as the operands of the trapped instructions in
// the abstract machine's event log (prelude/verif_hw.rs).
//
// Expected encodings are written from the manuals, not from the crate:
//   * INVLPG m            (SDM 2A): operand = the linear address.
//   * MOV CR3             (SDM 3A 4.10.4.1): a write flushes the non-global TLB entries.
//   * INVPCID r64, m128   (SDM 2A): descriptor = { PCID in bits 0..11, bits 12..63 reserved (MBZ),
//                         linear address in bits 64..127 }, register = type:
//                         0 individual address, 1 single context, 2 all contexts incl. globals,
//                         3 all contexts except globals.
//   * INVLPGB             (APM vol. 3): rAX[0] valid VA, [1] valid PCID, [2] valid ASID, [3] include
//                         global, [4] final translation only, [5] include nested, [63:12] VA;
//                         ECX[15:0] count, ECX[31] 1 = 2 MiB stride; EDX[15:0] ASID, EDX[27:16] PCID.
//
// All prior machine registers are symbolic (`reset_symbolic`), and every
// harness also states the frame: no modelled register changes and nothing
// else is executed.
#[cfg(kani)]
#[allow(unused_imports, clippy::all)]
mod verif_c11_tlb {
    use super::*;
    use crate::verif_hw::{self, Event, Kind, Machine};

    /// "the call returned although the input is invalid": see lib/C19_NOTES.md.
    #[inline(never)]
    fn returned_on_invalid_input() {
        unsafe { core::hint::unreachable_unchecked() }
    }

    /// Every architectural register of the model is the same in both states
    /// (the scratch GPRs used for operand binding and the log are not compared).
    pub(super) fn same_registers(a: &Machine, b: &Machine) -> bool {
        a.cr0 == b.cr0
            && a.cr2 == b.cr2
            && a.cr3 == b.cr3
            && a.cr4 == b.cr4
            && a.dr0 == b.dr0
            && a.dr1 == b.dr1
            && a.dr2 == b.dr2
            && a.dr3 == b.dr3
            && a.dr6 == b.dr6
            && a.dr7 == b.dr7
            && a.xcr0 == b.xcr0
            && a.msr_index == b.msr_index
            && a.msr_value == b.msr_value
            && a.rflags == b.rflags
            && a.cs == b.cs
            && a.ss == b.ss
            && a.ds == b.ds
            && a.es == b.es
            && a.fs == b.fs
            && a.gs == b.gs
            && a.fs_base == b.fs_base
            && a.gs_base == b.gs_base
            && a.kernel_gs_base == b.kernel_gs_base
            && a.mxcsr == b.mxcsr
            && a.gdtr_base == b.gdtr_base
            && a.gdtr_limit == b.gdtr_limit
            && a.idtr_base == b.idtr_base
            && a.idtr_limit == b.idtr_limit
            && a.tr == b.tr
    }

    fn canonical(a: u64) -> bool {
        a < 0x0000_8000_0000_0000 || a >= 0xffff_8000_0000_0000
    }

    fn any_canonical() -> u64 {
        let a: u64 = kani::any();
        kani::assume(canonical(a));
        a
    }

    fn any_pcid() -> (u16, Pcid) {
        let p: u16 = kani::any();
        kani::assume(p < 4096);
        (p, Pcid::new(p).unwrap())
    }

    // -------------------------------------------------------------------- flush

    //@ obligation C11 C11.tlb_flush.one_invlpg_of_exactly_that_address
    #[kani::proof]
    fn c11_tlb_flush_one_invlpg() {
        verif_hw::reset_symbolic();
        let before = *verif_hw::m();
        let a = any_canonical();
        let addr = VirtAddr::new(a);
        kani::cover!(true, "c11_tlb_flush_one_invlpg: reachable");
        flush(addr);
        let m = verif_hw::m();
        assert!(
            m.only_event_is(Kind::Invlpg, a, 0, 0),
            "C11.tlb_flush.one_invlpg_of_exactly_that_address: exactly one invlpg, operand == addr"
        );
        assert!(
            same_registers(&before, m),
            "C11.tlb_flush.one_invlpg_of_exactly_that_address: no register changes"
        );
    }

    // ---------------------------------------------------------------- flush_all

    // Shape: read CR3, write CR3, nothing else; the frame and the two cache
    // bits written are the ones read.
    //@ obligation C11 C11.tlb_flush_all.reads_then_writes_cr3_only
    #[kani::proof]
    fn c11_tlb_flush_all_reload_pair() {
        verif_hw::reset_symbolic();
        let before = *verif_hw::m();
        let old = before.cr3;
        kani::cover!(true, "c11_tlb_flush_all_reload_pair: reachable");
        flush_all();
        let m = verif_hw::m();
        assert!(
            m.log_len == 2 && !m.log_overflow && !m.unknown_asm_hit,
            "C11.tlb_flush_all.reads_then_writes_cr3_only: exactly two instructions"
        );
        assert!(
            m.event(0).is(Kind::MovFromCr, 3, old, 0),
            "C11.tlb_flush_all.reads_then_writes_cr3_only: first a mov from cr3"
        );
        let w = m.event(1);
        assert!(
            w.kind == Kind::MovToCr && w.a == 3 && w.c == 0 && m.cr3 == w.b,
            "C11.tlb_flush_all.reads_then_writes_cr3_only: then a mov to cr3"
        );
        assert!(
            w.b & 0x000f_ffff_ffff_f018 == old & 0x000f_ffff_ffff_f018 && w.b >> 63 == 0,
            "C11.tlb_flush_all.reads_then_writes_cr3_only: same table frame, same PWT/PCD, bit 63 (no-flush) clear"
        );
        let mut b2 = before;
        b2.cr3 = m.cr3;
        assert!(
            same_registers(&b2, m),
            "C11.tlb_flush_all.reads_then_writes_cr3_only: no other register changes"
        );
    }

    // Statement: "... reloads the address-space root register with its current
    // value". Prior CR3 ranges over every value the register can hold: bits
    // 52..63 read as zero (reserved / bit 63 is not stored), bits 0..11 are
    // PWT/PCD + ignored bits when CR4.PCIDE = 0 and the current PCID when
    // CR4.PCIDE = 1 (SDM 3A 4.5.2, table 4-12/4-13).
    //@ obligation C11 C11.tlb_flush_all.reloads_current_value
    #[kani::proof]
    fn c11_tlb_flush_all_reloads_current_value() {
        verif_hw::reset_symbolic();
        let old = verif_hw::m().cr3;
        kani::assume(old >> 52 == 0);
        kani::cover!(true, "c11_tlb_flush_all_reloads_current_value: reachable");
        flush_all();
        let m = verif_hw::m();
        assert!(
            m.event(1).is(Kind::MovToCr, 3, old, 0),
            "C11.tlb_flush_all.reloads_current_value: the value written to cr3 is the value read"
        );
        assert!(
            m.cr3 == old,
            "C11.tlb_flush_all.reloads_current_value: cr3 unchanged"
        );
    }

    // --------------------------------------------------------------- flush_pcid

    //@ obligation C11 C11.tlb_flush_pcid.address_kind0_pcid_and_address
    #[kani::proof]
    fn c11_tlb_flush_pcid_address() {
        verif_hw::reset_symbolic();
        let before = *verif_hw::m();
        let (p, pcid) = any_pcid();
        let a = any_canonical();
        kani::cover!(true, "c11_tlb_flush_pcid_address: reachable");
        unsafe { flush_pcid(InvPcidCommand::Address(VirtAddr::new(a), pcid)) };
        let m = verif_hw::m();
        assert!(
            m.only_event_is(Kind::Invpcid, 0, p as u64, a),
            "C11.tlb_flush_pcid.address_kind0_pcid_and_address: one invpcid, type 0, descriptor {pcid, address}"
        );
        assert!(
            same_registers(&before, m),
            "C11.tlb_flush_pcid.address_kind0_pcid_and_address: no register changes"
        );
    }

    //@ obligation C11 C11.tlb_flush_pcid.single_kind1_pcid
    #[kani::proof]
    fn c11_tlb_flush_pcid_single() {
        verif_hw::reset_symbolic();
        let before = *verif_hw::m();
        let (p, pcid) = any_pcid();
        kani::cover!(true, "c11_tlb_flush_pcid_single: reachable");
        unsafe { flush_pcid(InvPcidCommand::Single(pcid)) };
        let m = verif_hw::m();
        let e = m.event(0);
        assert!(
            m.log_len == 1 && !m.log_overflow && !m.unknown_asm_hit && e.kind == Kind::Invpcid,
            "C11.tlb_flush_pcid.single_kind1_pcid: exactly one invpcid"
        );
        // the address half of the descriptor is not used by type 1: not constrained
        assert!(
            e.a == 1 && e.b == p as u64,
            "C11.tlb_flush_pcid.single_kind1_pcid: type 1, descriptor qword 0 == pcid (bits 12..63 zero)"
        );
        assert!(
            same_registers(&before, m),
            "C11.tlb_flush_pcid.single_kind1_pcid: no register changes"
        );
    }

    //@ obligation C11 C11.tlb_flush_pcid.all_kind2
    //@ obligation C11 C11.tlb_flush_pcid.all_except_global_kind3
    #[kani::proof]
    fn c11_tlb_flush_pcid_all_kinds() {
        verif_hw::reset_symbolic();
        let before = *verif_hw::m();
        let incl_global: bool = kani::any();
        kani::cover!(true, "c11_tlb_flush_pcid_all_kinds: reachable");
        if incl_global {
            unsafe { flush_pcid(InvPcidCommand::All) };
        } else {
            unsafe { flush_pcid(InvPcidCommand::AllExceptGlobal) };
        }
        let m = verif_hw::m();
        let e = m.event(0);
        // PCID and address are not used by types 2 and 3; the reserved bits 12..63 of qword 0 must be zero
        let one_invpcid = m.log_len == 1 && !m.log_overflow && !m.unknown_asm_hit && e.kind == Kind::Invpcid;
        let unchanged = same_registers(&before, m);
        if incl_global {
            assert!(
                one_invpcid && e.a == 2 && e.b >> 12 == 0 && unchanged,
                "C11.tlb_flush_pcid.all_kind2: exactly one invpcid of type 2, reserved descriptor bits zero, no register changes"
            );
        } else {
            assert!(
                one_invpcid && e.a == 3 && e.b >> 12 == 0 && unchanged,
                "C11.tlb_flush_pcid.all_except_global_kind3: exactly one invpcid of type 3, reserved descriptor bits zero, no register changes"
            );
        }
    }

    // ---------------------------------------------------------- flush_broadcast

    /// The INVLPGB operands for one request, from the APM field list.
    fn want_invlpgb(
        va_and_count: Option<(u64, u16)>,
        two_mib: bool,
        pcid: Option<u16>,
        asid: Option<u16>,
        g: bool,
        f: bool,
        n: bool,
    ) -> (u64, u64, u64) {
        let mut rax: u64 = 0;
        let mut ecx: u64 = 0;
        let mut edx: u64 = 0;
        if let Some((va, count)) = va_and_count {
            rax |= 1 | va;
            ecx |= count as u64;
            if two_mib {
                ecx |= 1 << 31;
            }
        }
        if let Some(p) = pcid {
            rax |= 1 << 1;
            edx |= (p as u64) << 16;
        }
        if let Some(a) = asid {
            rax |= 1 << 2;
            edx |= a as u64;
        }
        if g {
            rax |= 1 << 3;
        }
        if f {
            rax |= 1 << 4;
        }
        if n {
            rax |= 1 << 5;
        }
        (rax, ecx, edx)
    }

    fn any_opt_pcid() -> (Option<u16>, Option<Pcid>) {
        if kani::any() {
            let (p, pcid) = any_pcid();
            (Some(p), Some(pcid))
        } else {
            (None, None)
        }
    }

    fn any_opt_u16() -> Option<u16> {
        if kani::any() {
            Some(kani::any())
        } else {
            None
        }
    }

    //@ obligation C11 C11.tlb_flush_broadcast.registers_4kib
    #[kani::proof]
    fn c11_tlb_flush_broadcast_4kib() {
        verif_hw::reset_symbolic();
        let before = *verif_hw::m();
        let va = any_canonical() & !0xfff;
        let count: u16 = kani::any();
        let with_va: bool = kani::any();
        let (p, pcid) = any_opt_pcid();
        let asid = any_opt_u16();
        let (g, f, n): (bool, bool, bool) = (kani::any(), kani::any(), kani::any());
        let page: Page<Size4KiB> = Page::containing_address(VirtAddr::new(va));
        kani::cover!(true, "c11_tlb_flush_broadcast_4kib: reachable");
        unsafe {
            flush_broadcast(if with_va { Some((page, count)) } else { None }, pcid, asid, g, f, n);
        }
        let (rax, ecx, edx) = want_invlpgb(if with_va { Some((va, count)) } else { None }, false, p, asid, g, f, n);
        let m = verif_hw::m();
        assert!(
            m.only_event_is(Kind::Invlpgb, rax, ecx, edx),
            "C11.tlb_flush_broadcast.registers_4kib: one invlpgb with rax/ecx/edx per the APM field layout"
        );
        assert!(
            same_registers(&before, m),
            "C11.tlb_flush_broadcast.registers_4kib: no register changes"
        );
    }

    //@ obligation C11 C11.tlb_flush_broadcast.registers_2mib
    #[kani::proof]
    fn c11_tlb_flush_broadcast_2mib() {
        verif_hw::reset_symbolic();
        let before = *verif_hw::m();
        let va = any_canonical() & !0x1f_ffff;
        let count: u16 = kani::any();
        let with_va: bool = kani::any();
        let (p, pcid) = any_opt_pcid();
        let asid = any_opt_u16();
        let (g, f, n): (bool, bool, bool) = (kani::any(), kani::any(), kani::any());
        let page: Page<Size2MiB> = Page::containing_address(VirtAddr::new(va));
        kani::cover!(true, "c11_tlb_flush_broadcast_2mib: reachable");
        unsafe {
            flush_broadcast(if with_va { Some((page, count)) } else { None }, pcid, asid, g, f, n);
        }
        let (rax, ecx, edx) = want_invlpgb(if with_va { Some((va, count)) } else { None }, true, p, asid, g, f, n);
        let m = verif_hw::m();
        assert!(
            m.only_event_is(Kind::Invlpgb, rax, ecx, edx),
            "C11.tlb_flush_broadcast.registers_2mib: one invlpgb with rax/ecx/edx per the APM field layout, ecx[31] set"
        );
        assert!(
            same_registers(&before, m),
            "C11.tlb_flush_broadcast.registers_2mib: no register changes"
        );
    }

    // ------------------------------------------------- Invlpgb and its builder

    fn any_invlpgb() -> Invlpgb {
        // struct literal: `Invlpgb::new()` runs cpuid and asserts CPL 0
        Invlpgb {
            invlpgb_count_max: kani::any(),
            tlb_flush_nested: kani::any(),
            nasid: kani::any(),
        }
    }

    // `Invlpgb::new()` is where "the processor's per-request maximum" of the statement comes from:
    // CPUID Fn8000_0008 (APM vol. 3, E.4.7): EBX[3] INVLPGB/TLBSYNC supported, EBX[21] INVLPGB
    // nested-page support, EDX[15:0] maximum page count; Fn8000_000A: EBX = number of ASIDs.
    // `core::arch::x86_64::__cpuid` is replaced by a stub that answers each leaf with a symbolic
    // result and records the leaves asked (the instruction itself is outside the abstract machine).
    static mut CPUID_8: [u32; 4] = [0; 4]; // eax, ebx, ecx, edx of leaf 0x8000_0008
    static mut CPUID_A: [u32; 4] = [0; 4]; // of leaf 0x8000_000a
    static mut CPUID_OTHER_LEAF: bool = false;
    fn cpuid_stub(leaf: u32) -> core::arch::x86_64::CpuidResult {
        let r = unsafe {
            if leaf == 0x8000_0008 {
                CPUID_8
            } else if leaf == 0x8000_000a {
                CPUID_A
            } else {
                CPUID_OTHER_LEAF = true;
                [kani::any(), kani::any(), kani::any(), kani::any()]
            }
        };
        core::arch::x86_64::CpuidResult { eax: r[0], ebx: r[1], ecx: r[2], edx: r[3] }
    }
    fn any_cpuid() {
        unsafe {
            CPUID_8 = [kani::any(), kani::any(), kani::any(), kani::any()];
            CPUID_A = [kani::any(), kani::any(), kani::any(), kani::any()];
            CPUID_OTHER_LEAF = false;
        }
    }

    //@ obligation C11 C11.Invlpgb_new.limits_are_what_cpuid_reports
    #[kani::proof]
    #[kani::stub(core::arch::x86_64::__cpuid, cpuid_stub)]
    fn c11_invlpgb_new_decodes_cpuid() {
        verif_hw::reset_symbolic();
        any_cpuid();
        kani::assume(verif_hw::m().cs & 3 == 0);
        let before = *verif_hw::m();
        kani::cover!(true, "c11_invlpgb_new_decodes_cpuid: reachable");
        let r = Invlpgb::new();
        let (l8, la) = unsafe { (CPUID_8, CPUID_A) };
        let supported = l8[1] & (1 << 3) != 0;
        assert!(
            r.is_some() == supported,
            "C11.Invlpgb_new.limits_are_what_cpuid_reports: Some iff CPUID Fn8000_0008 EBX[3]"
        );
        if let Some(i) = r {
            assert!(
                i.invlpgb_count_max() == (l8[3] & 0xffff) as u16,
                "C11.Invlpgb_new.limits_are_what_cpuid_reports: per-request maximum == Fn8000_0008 EDX[15:0]"
            );
            assert!(
                i.tlb_flush_nested() == (l8[1] & (1 << 21) != 0),
                "C11.Invlpgb_new.limits_are_what_cpuid_reports: nested support == Fn8000_0008 EBX[21]"
            );
            assert!(
                i.nasid() == la[1],
                "C11.Invlpgb_new.limits_are_what_cpuid_reports: number of ASIDs == Fn8000_000A EBX"
            );
        }
        assert!(
            !unsafe { CPUID_OTHER_LEAF },
            "C11.Invlpgb_new.limits_are_what_cpuid_reports: no other CPUID leaf is consulted"
        );
        assert!(
            same_registers(&before, verif_hw::m()) && verif_hw::count(Kind::Invlpgb) == 0 && verif_hw::count(Kind::Tlbsync) == 0,
            "C11.Invlpgb_new.limits_are_what_cpuid_reports: nothing is flushed, no register changes"
        );
    }

    //@ obligation C11 C11.Invlpgb_new.panics_outside_ring0
    #[kani::proof]
    #[kani::should_panic]
    #[kani::stub(core::arch::x86_64::__cpuid, cpuid_stub)]
    fn c11_invlpgb_new_panics_outside_ring0() {
        verif_hw::reset_symbolic();
        any_cpuid();
        kani::assume(verif_hw::m().cs & 3 != 0);
        kani::cover!(true, "c11_invlpgb_new_panics_outside_ring0: reachable");
        let _ = Invlpgb::new();
        returned_on_invalid_input();
    }

    //@ obligation C11 C11.Invlpgb_tlbsync.one_tlbsync
    #[kani::proof]
    fn c11_invlpgb_tlbsync() {
        verif_hw::reset_symbolic();
        let before = *verif_hw::m();
        let i = any_invlpgb();
        kani::cover!(true, "c11_invlpgb_tlbsync: reachable");
        i.tlbsync();
        let m = verif_hw::m();
        assert!(
            m.only_event_is(Kind::Tlbsync, 0, 0, 0) && same_registers(&before, m),
            "C11.Invlpgb_tlbsync.one_tlbsync: exactly one tlbsync, no register changes"
        );
    }

    // The builder carries exactly what the caller asked for: every setter sets its own field and
    // leaves the others; `build()` starts with nothing requested; `pages` keeps the options.
    //@ obligation C11 C11.InvlpgbFlushBuilder_setters.carry_requested_pcid_asid_options
    #[kani::proof]
    fn c11_builder_setters() {
        let i = any_invlpgb();
        let (p, pcid) = any_pcid();
        let asid: u16 = kani::any();
        kani::assume((asid as u32) < i.nasid);
        let (set_pcid, set_asid, g, f): (bool, bool, bool, bool) = (kani::any(), kani::any(), kani::any(), kani::any());
        kani::cover!(true, "c11_builder_setters: reachable");
        let mut b = i.build();
        assert!(
            b.page_range.is_none() && b.pcid.is_none() && b.asid.is_none() && !b.include_global && !b.final_translation_only && !b.include_nested_translations,
            "C11.InvlpgbFlushBuilder_setters.carry_requested_pcid_asid_options: build() requests nothing"
        );
        if set_pcid {
            unsafe { b.pcid(pcid) };
        }
        if set_asid {
            let r = unsafe { b.asid(asid) };
            assert!(
                r.is_ok(),
                "C11.InvlpgbFlushBuilder_setters.carry_requested_pcid_asid_options: an ASID below nasid is accepted"
            );
        }
        if g {
            b.include_global();
        }
        if f {
            b.final_translation_only();
        }
        let start: Page<Size2MiB> = Page::containing_address(VirtAddr::new(any_canonical()));
        let end: Page<Size2MiB> = Page::containing_address(VirtAddr::new(any_canonical()));
        let b = b.pages(Page::range(start, end));
        assert!(
            b.pcid.map(|x| x.value()) == if set_pcid { Some(p) } else { None },
            "C11.InvlpgbFlushBuilder_setters.carry_requested_pcid_asid_options: pcid"
        );
        assert!(
            b.asid == if set_asid { Some(asid) } else { None },
            "C11.InvlpgbFlushBuilder_setters.carry_requested_pcid_asid_options: asid"
        );
        assert!(
            b.include_global == g && b.final_translation_only == f && !b.include_nested_translations,
            "C11.InvlpgbFlushBuilder_setters.carry_requested_pcid_asid_options: option bits"
        );
        assert!(
            b.page_range.map(|r| (r.start, r.end)) == Some((start, end)),
            "C11.InvlpgbFlushBuilder_setters.carry_requested_pcid_asid_options: page range"
        );
        assert!(
            core::ptr::eq(b.invlpgb, &i),
            "C11.InvlpgbFlushBuilder_setters.carry_requested_pcid_asid_options: same processor limits"
        );
    }

    //@ obligation C11 C11.InvlpgbFlushBuilder_asid.rejects_asid_ge_nasid
    #[kani::proof]
    fn c11_builder_asid_rejects() {
        let i = any_invlpgb();
        let asid: u16 = kani::any();
        kani::assume((asid as u32) >= i.nasid);
        kani::cover!(true, "c11_builder_asid_rejects: reachable");
        let mut b = i.build();
        let is_err = unsafe { b.asid(asid) }.is_err();
        assert!(
            is_err && b.asid.is_none(),
            "C11.InvlpgbFlushBuilder_asid.rejects_asid_ge_nasid: Err and no ASID recorded"
        );
    }

    //@ obligation C11 C11.InvlpgbFlushBuilder_include_nested.sets_bit_if_supported
    #[kani::proof]
    fn c11_builder_nested_accepts() {
        let mut i = any_invlpgb();
        i.tlb_flush_nested = true;
        kani::cover!(true, "c11_builder_nested_accepts: reachable");
        let b = i.build().include_nested_translations();
        assert!(
            b.include_nested_translations && !b.include_global && !b.final_translation_only && b.pcid.is_none() && b.asid.is_none(),
            "C11.InvlpgbFlushBuilder_include_nested.sets_bit_if_supported: only the nested bit is set"
        );
    }

    //@ obligation C11 C11.InvlpgbFlushBuilder_include_nested.panics_if_unsupported
    #[kani::proof]
    #[kani::should_panic]
    fn c11_builder_nested_rejects() {
        let mut i = any_invlpgb();
        i.tlb_flush_nested = false;
        kani::cover!(true, "c11_builder_nested_rejects: reachable");
        let _b = i.build().include_nested_translations();
        returned_on_invalid_input();
    }

    // No page range: one request without a valid VA.
    //@ obligation C11 C11.InvlpgbFlushBuilder_flush.no_range_one_request_without_va
    #[kani::proof]
    fn c11_builder_flush_no_range() {
        verif_hw::reset_symbolic();
        let before = *verif_hw::m();
        let i = any_invlpgb();
        let (p, pcid) = any_opt_pcid();
        let asid = any_opt_u16();
        let (g, f, n): (bool, bool, bool) = (kani::any(), kani::any(), kani::any());
        let mut b = i.build();
        b.pcid = pcid;
        b.asid = asid;
        b.include_global = g;
        b.final_translation_only = f;
        b.include_nested_translations = n;
        kani::cover!(true, "c11_builder_flush_no_range: reachable");
        b.flush();
        let (rax, ecx, edx) = want_invlpgb(None, false, p, asid, g, f, n);
        let m = verif_hw::m();
        assert!(
            m.only_event_is(Kind::Invlpgb, rax, ecx, edx) && same_registers(&before, m),
            "C11.InvlpgbFlushBuilder_flush.no_range_one_request_without_va: one invlpgb, VA-valid clear, requested bits"
        );
    }

    // ---- the chunking loop: BOUNDED stand-in (the unbounded proof is the Verus side's) ----
    //
    // Reading of a request used here = the code's own (tlb.rs:348-350): a request (start, count)
    // covers max(count, 1) pages from `start`. (The APM defines ECX[15:0] as the number of
    // ADDITIONAL pages, i.e. count + 1 pages; recorded as an observation in lib/C08_NOTES.md.)
    //
    // Pages are handled by rank: rank(a) = a & (2^48 - 1) numbers the canonical addresses
    // contiguously, so "start + k pages" across the gap is rank arithmetic.
    const RANK_MASK: u64 = 0x0000_ffff_ffff_ffff;

    fn sext48(r: u64) -> u64 {
        if r & (1 << 47) != 0 {
            r | 0xffff_0000_0000_0000
        } else {
            r & RANK_MASK
        }
    }

    /// Walk the logged requests (constant bound LOG_CAP) and check every clause of the statement.
    fn check_requests(
        size: u64,
        two_mib: bool,
        start_rank: u64,
        end_rank: u64,
        max: u16,
        p: Option<u16>,
        asid: Option<u16>,
        g: bool,
        f: bool,
        n: bool,
    ) {
        let m = verif_hw::m();
        assert!(
            !m.log_overflow && !m.unknown_asm_hit,
            "C11.InvlpgbFlushBuilder_flush.only_invlpgb_requests: log complete"
        );
        // `next`: first rank not yet covered when the requests are taken in order
        let mut next = start_rank;
        // `exact`: every request started exactly where the previous one ended
        let mut exact = true;
        let mut j = 0;
        while j < verif_hw::LOG_CAP {
            if j < m.log_len {
                let e = m.log[j];
                assert!(
                    e.kind == Kind::Invlpgb,
                    "C11.InvlpgbFlushBuilder_flush.only_invlpgb_requests: nothing but invlpgb is executed"
                );
                let va = e.a & !0xfff;
                let count = e.b & 0xffff;
                let (rax, ecx, edx) = want_invlpgb(Some((va, count as u16)), two_mib, p, asid, g, f, n);
                assert!(
                    e.a == rax && e.b == ecx && e.c == edx,
                    "C11.InvlpgbFlushBuilder_flush.every_request_carries_pcid_asid_options: VA valid, stride, PCID/ASID/option bits as requested"
                );
                assert!(
                    count <= max as u64 && count <= 65535,
                    "C11.InvlpgbFlushBuilder_flush.count_le_processor_max_and_65535: count <= min(invlpgb_count_max, 65535)"
                );
                let pages = if count == 0 { 1 } else { count };
                let r = va & RANK_MASK;
                assert!(
                    va == sext48(r) && va % size == 0,
                    "C11.InvlpgbFlushBuilder_flush.covers_every_page: request address is a canonical page start"
                );
                assert!(
                    r <= next,
                    "C11.InvlpgbFlushBuilder_flush.covers_every_page: no page is skipped between two requests"
                );
                if r != next {
                    exact = false;
                }
                let stop = r + pages * size;
                if va < 0x0000_8000_0000_0000 {
                    assert!(
                        stop <= 0x0000_8000_0000_0000,
                        "C11.InvlpgbFlushBuilder_flush.never_across_the_gap: a lower-half request ends at or below 0x7fff_ffff_ffff"
                    );
                }
                assert!(
                    stop <= (1 << 48),
                    "C11.InvlpgbFlushBuilder_flush.never_across_the_gap: no request wraps past the top of the address space"
                );
                if stop > next {
                    next = stop;
                }
            }
            j += 1;
        }
        assert!(
            next >= end_rank,
            "C11.InvlpgbFlushBuilder_flush.covers_every_page: the requests reach the end of the range"
        );
        assert!(
            exact && next == end_rank,
            "C11.InvlpgbFlushBuilder_flush.no_page_outside_range: requests are disjoint, in order, and end exactly at the range end"
        );
    }

    //@ obligation C11 C11.InvlpgbFlushBuilder_flush.covers_every_page bounded="ranges <= 8 pages, invlpgb_count_max <= 3"
    //@ obligation C11 C11.InvlpgbFlushBuilder_flush.no_page_outside_range bounded="ranges <= 8 pages, invlpgb_count_max <= 3"
    //@ obligation C11 C11.InvlpgbFlushBuilder_flush.count_le_processor_max_and_65535 bounded="ranges <= 8 pages, invlpgb_count_max <= 3"
    //@ obligation C11 C11.InvlpgbFlushBuilder_flush.every_request_carries_pcid_asid_options bounded="ranges <= 8 pages, invlpgb_count_max <= 3"
    //@ obligation C11 C11.InvlpgbFlushBuilder_flush.never_across_the_gap bounded="ranges <= 8 pages, invlpgb_count_max <= 3"
    //@ obligation C11 C11.InvlpgbFlushBuilder_flush.only_invlpgb_requests bounded="ranges <= 8 pages, invlpgb_count_max <= 3"
    #[kani::proof]
    #[kani::unwind(10)]
    #[kani::solver(minisat)] // measured: 43 s / 30 s instead of 64 s / 43 s with the default solver
    fn c11_builder_flush_range_4kib() {
        verif_hw::reset_symbolic();
        let before = *verif_hw::m();
        let mut i = any_invlpgb();
        let max: u16 = kani::any();
        kani::assume(max <= 3);
        i.invlpgb_count_max = max;
        // symbolic start anywhere (incl. the last pages of the lower half and of the address space)
        let start_rank: u64 = kani::any();
        kani::assume(start_rank <= RANK_MASK && start_rank % 4096 == 0);
        let len: u64 = kani::any();
        kani::assume(len <= 8);
        let end_rank = start_rank + len * 4096;
        // the exclusive end must itself be a page: it cannot lie past the last page
        kani::assume(end_rank <= RANK_MASK);
        let start: Page<Size4KiB> = Page::containing_address(VirtAddr::new(sext48(start_rank)));
        let end: Page<Size4KiB> = Page::containing_address(VirtAddr::new(sext48(end_rank)));
        let (p, pcid) = any_opt_pcid();
        let asid = any_opt_u16();
        let (g, f, n): (bool, bool, bool) = (kani::any(), kani::any(), kani::any());
        let mut b = i.build().pages(Page::range(start, end));
        b.pcid = pcid;
        b.asid = asid;
        b.include_global = g;
        b.final_translation_only = f;
        b.include_nested_translations = n;
        kani::cover!(true, "c11_builder_flush_range_4kib: reachable");
        kani::cover!(len == 8 && max == 0, "c11_builder_flush_range_4kib: eight single-page requests");
        kani::cover!(
            start_rank < (1 << 47) && end_rank > (1 << 47) && max == 3,
            "c11_builder_flush_range_4kib: range across the gap"
        );
        b.flush();
        check_requests(4096, false, start_rank, end_rank, max, p, asid, g, f, n);
        assert!(
            same_registers(&before, verif_hw::m()),
            "C11.InvlpgbFlushBuilder_flush.only_invlpgb_requests: no register changes"
        );
    }

    //@ obligation C11 C11.InvlpgbFlushBuilder_flush.covers_every_page bounded="ranges <= 8 pages, invlpgb_count_max <= 3"
    //@ obligation C11 C11.InvlpgbFlushBuilder_flush.no_page_outside_range bounded="ranges <= 8 pages, invlpgb_count_max <= 3"
    //@ obligation C11 C11.InvlpgbFlushBuilder_flush.count_le_processor_max_and_65535 bounded="ranges <= 8 pages, invlpgb_count_max <= 3"
    //@ obligation C11 C11.InvlpgbFlushBuilder_flush.every_request_carries_pcid_asid_options bounded="ranges <= 8 pages, invlpgb_count_max <= 3"
    //@ obligation C11 C11.InvlpgbFlushBuilder_flush.never_across_the_gap bounded="ranges <= 8 pages, invlpgb_count_max <= 3"
    //@ obligation C11 C11.InvlpgbFlushBuilder_flush.only_invlpgb_requests bounded="ranges <= 8 pages, invlpgb_count_max <= 3"
    #[kani::proof]
    #[kani::unwind(10)]
    #[kani::solver(minisat)] // measured: 43 s / 30 s instead of 64 s / 43 s with the default solver
    fn c11_builder_flush_range_2mib() {
        verif_hw::reset_symbolic();
        let before = *verif_hw::m();
        let mut i = any_invlpgb();
        let max: u16 = kani::any();
        kani::assume(max <= 3);
        i.invlpgb_count_max = max;
        const SZ: u64 = 0x20_0000;
        let start_rank: u64 = kani::any();
        kani::assume(start_rank <= RANK_MASK && start_rank % SZ == 0);
        let len: u64 = kani::any();
        kani::assume(len <= 8);
        let end_rank = start_rank + len * SZ;
        kani::assume(end_rank <= RANK_MASK);
        let start: Page<Size2MiB> = Page::containing_address(VirtAddr::new(sext48(start_rank)));
        let end: Page<Size2MiB> = Page::containing_address(VirtAddr::new(sext48(end_rank)));
        let (p, pcid) = any_opt_pcid();
        let asid = any_opt_u16();
        let (g, f, n): (bool, bool, bool) = (kani::any(), kani::any(), kani::any());
        let mut b = i.build().pages(Page::range(start, end));
        b.pcid = pcid;
        b.asid = asid;
        b.include_global = g;
        b.final_translation_only = f;
        b.include_nested_translations = n;
        kani::cover!(true, "c11_builder_flush_range_2mib: reachable");
        kani::cover!(len == 8 && max == 0, "c11_builder_flush_range_2mib: eight single-page requests");
        kani::cover!(
            start_rank < (1 << 47) && end_rank > (1 << 47) && max == 3,
            "c11_builder_flush_range_2mib: range across the gap"
        );
        b.flush();
        check_requests(SZ, true, start_rank, end_rank, max, p, asid, g, f, n);
        assert!(
            same_registers(&before, verif_hw::m()),
            "C11.InvlpgbFlushBuilder_flush.only_invlpgb_requests: no register changes"
        );
    }
}
