//@ include-into src/structures/idt.rs
// C12, part 1: the descriptor of vector v occupies bytes 16v..16v+16 of the
// table whichever way it is reached (named field, index); indexing refuses
// exactly the reserved vectors and the vectors with another handler signature.
//
// The (field, vector) table below is written from the manuals (SDM 3A table
// 6-1 "Protected-Mode Exceptions and Interrupts", APM 2 table 8-1 "Interrupt
// Vector Source and Cause"), not from the crate's `Index` impl:
//
//    0 #DE divide_error            11 #NP segment_not_present    21 #CP cp_protection_exception
//    1 #DB debug                   12 #SS stack_segment_fault    22-27 reserved
//    2 NMI non_maskable_interrupt  13 #GP general_protection_..  28 #HV hv_injection_exception
//    3 #BP breakpoint              14 #PF page_fault             29 #VC vmm_communication_exception
//    4 #OF overflow                15 reserved                   30 #SX security_exception
//    5 #BR bound_range_exceeded    16 #MF x87_floating_point     31 reserved
//    6 #UD invalid_opcode          17 #AC alignment_check        32-255 user defined (`interrupts`)
//    7 #NM device_not_available    18 #MC machine_check
//    8 #DF double_fault            19 #XM simd_floating_point
//    9 coprocessor segment overrun 20 #VE virtualization
//   10 #TS invalid_tss
//
// Error code pushed (SDM 3A 6.13 / table 6-1, APM 2 8.2): 8, 10, 11, 12, 13,
// 14, 17, 21, 29, 30. Never returns ("abort"): 8, 18. These are the vectors
// whose handler signature differs from `HandlerFunc`.
#[cfg(kani)]
#[allow(unused_imports, clippy::all)]
mod verif_c12_layout {
    use super::*;
    use core::mem::{offset_of, size_of};

    /// See lib/C19_NOTES.md: reaching this fails a `should_panic` harness
    /// (check class `unreachable`, not `assertion`).
    #[inline(never)]
    fn returned_on_invalid_input() {
        unsafe { core::hint::unreachable_unchecked() }
    }

    /// Vectors the architecture reserves (no exception assigned).
    fn is_reserved(v: u8) -> bool {
        v == 15 || (v >= 22 && v <= 27) || v == 31
    }

    /// Vectors whose handler receives an error code and/or must not return.
    fn has_other_signature(v: u8) -> bool {
        v == 8 || v == 10 || v == 11 || v == 12 || v == 13 || v == 14 || v == 17 || v == 18
            || v == 21 || v == 29 || v == 30
    }

    fn off<T, U>(base: &T, p: &U) -> isize {
        unsafe { (p as *const U as *const u8).offset_from(base as *const T as *const u8) }
    }

    // ------------------------------------------------------------ sizes

    //@ obligation C12 C12.Idt.size_4096_entry_16
    #[kani::proof]
    fn c12_sizes() {
        kani::cover!(true, "c12_sizes: reachable");
        assert!(
            size_of::<InterruptDescriptorTable>() == 4096,
            "C12.Idt.size_4096_entry_16: table is 256 x 16 bytes"
        );
        assert!(
            size_of::<Entry<HandlerFunc>>() == 16
                && size_of::<Entry<HandlerFuncWithErrCode>>() == 16
                && size_of::<Entry<PageFaultHandlerFunc>>() == 16
                && size_of::<Entry<DivergingHandlerFunc>>() == 16
                && size_of::<Entry<DivergingHandlerFuncWithErrCode>>() == 16,
            "C12.Idt.size_4096_entry_16: every entry type is 16 bytes"
        );
    }

    // ------------------------------------------------- named fields

    //@ obligation C12 C12.Idt_field.divide_error.at_16v
    //@ obligation C12 C12.Idt_field.debug.at_16v
    //@ obligation C12 C12.Idt_field.non_maskable_interrupt.at_16v
    //@ obligation C12 C12.Idt_field.breakpoint.at_16v
    //@ obligation C12 C12.Idt_field.overflow.at_16v
    //@ obligation C12 C12.Idt_field.bound_range_exceeded.at_16v
    //@ obligation C12 C12.Idt_field.invalid_opcode.at_16v
    //@ obligation C12 C12.Idt_field.device_not_available.at_16v
    //@ obligation C12 C12.Idt_field.double_fault.at_16v
    //@ obligation C12 C12.Idt_field.coprocessor_segment_overrun.at_16v
    //@ obligation C12 C12.Idt_field.invalid_tss.at_16v
    //@ obligation C12 C12.Idt_field.segment_not_present.at_16v
    //@ obligation C12 C12.Idt_field.stack_segment_fault.at_16v
    //@ obligation C12 C12.Idt_field.general_protection_fault.at_16v
    //@ obligation C12 C12.Idt_field.page_fault.at_16v
    //@ obligation C12 C12.Idt_field.reserved_1.at_16v
    #[kani::proof]
    fn c12_named_field_offsets_0_15() {
        kani::cover!(true, "c12_named_field_offsets_0_15: reachable");
        type T = InterruptDescriptorTable;
        assert!(offset_of!(T, divide_error) == 16 * 0, "C12.Idt_field.divide_error.at_16v: vector 0");
        assert!(offset_of!(T, debug) == 16 * 1, "C12.Idt_field.debug.at_16v: vector 1");
        assert!(
            offset_of!(T, non_maskable_interrupt) == 16 * 2,
            "C12.Idt_field.non_maskable_interrupt.at_16v: vector 2"
        );
        assert!(offset_of!(T, breakpoint) == 16 * 3, "C12.Idt_field.breakpoint.at_16v: vector 3");
        assert!(offset_of!(T, overflow) == 16 * 4, "C12.Idt_field.overflow.at_16v: vector 4");
        assert!(
            offset_of!(T, bound_range_exceeded) == 16 * 5,
            "C12.Idt_field.bound_range_exceeded.at_16v: vector 5"
        );
        assert!(offset_of!(T, invalid_opcode) == 16 * 6, "C12.Idt_field.invalid_opcode.at_16v: vector 6");
        assert!(
            offset_of!(T, device_not_available) == 16 * 7,
            "C12.Idt_field.device_not_available.at_16v: vector 7"
        );
        assert!(offset_of!(T, double_fault) == 16 * 8, "C12.Idt_field.double_fault.at_16v: vector 8");
        assert!(
            offset_of!(T, coprocessor_segment_overrun) == 16 * 9,
            "C12.Idt_field.coprocessor_segment_overrun.at_16v: vector 9"
        );
        assert!(offset_of!(T, invalid_tss) == 16 * 10, "C12.Idt_field.invalid_tss.at_16v: vector 10");
        assert!(
            offset_of!(T, segment_not_present) == 16 * 11,
            "C12.Idt_field.segment_not_present.at_16v: vector 11"
        );
        assert!(
            offset_of!(T, stack_segment_fault) == 16 * 12,
            "C12.Idt_field.stack_segment_fault.at_16v: vector 12"
        );
        assert!(
            offset_of!(T, general_protection_fault) == 16 * 13,
            "C12.Idt_field.general_protection_fault.at_16v: vector 13"
        );
        assert!(offset_of!(T, page_fault) == 16 * 14, "C12.Idt_field.page_fault.at_16v: vector 14");
        assert!(offset_of!(T, reserved_1) == 16 * 15, "C12.Idt_field.reserved_1.at_16v: vector 15");
    }

    //@ obligation C12 C12.Idt_field.x87_floating_point.at_16v
    //@ obligation C12 C12.Idt_field.alignment_check.at_16v
    //@ obligation C12 C12.Idt_field.machine_check.at_16v
    //@ obligation C12 C12.Idt_field.simd_floating_point.at_16v
    //@ obligation C12 C12.Idt_field.virtualization.at_16v
    //@ obligation C12 C12.Idt_field.cp_protection_exception.at_16v
    //@ obligation C12 C12.Idt_field.reserved_2.at_16v
    //@ obligation C12 C12.Idt_field.hv_injection_exception.at_16v
    //@ obligation C12 C12.Idt_field.vmm_communication_exception.at_16v
    //@ obligation C12 C12.Idt_field.security_exception.at_16v
    //@ obligation C12 C12.Idt_field.reserved_3.at_16v
    //@ obligation C12 C12.Idt_field.interrupts.at_16v
    #[kani::proof]
    fn c12_named_field_offsets_16_255() {
        kani::cover!(true, "c12_named_field_offsets_16_255: reachable");
        type T = InterruptDescriptorTable;
        assert!(
            offset_of!(T, x87_floating_point) == 16 * 16,
            "C12.Idt_field.x87_floating_point.at_16v: vector 16"
        );
        assert!(offset_of!(T, alignment_check) == 16 * 17, "C12.Idt_field.alignment_check.at_16v: vector 17");
        assert!(offset_of!(T, machine_check) == 16 * 18, "C12.Idt_field.machine_check.at_16v: vector 18");
        assert!(
            offset_of!(T, simd_floating_point) == 16 * 19,
            "C12.Idt_field.simd_floating_point.at_16v: vector 19"
        );
        assert!(offset_of!(T, virtualization) == 16 * 20, "C12.Idt_field.virtualization.at_16v: vector 20");
        assert!(
            offset_of!(T, cp_protection_exception) == 16 * 21,
            "C12.Idt_field.cp_protection_exception.at_16v: vector 21"
        );
        assert!(
            offset_of!(T, reserved_2) == 16 * 22 && size_of::<[Entry<HandlerFunc>; 6]>() == 16 * 6,
            "C12.Idt_field.reserved_2.at_16v: vectors 22..=27"
        );
        assert!(
            offset_of!(T, hv_injection_exception) == 16 * 28,
            "C12.Idt_field.hv_injection_exception.at_16v: vector 28"
        );
        assert!(
            offset_of!(T, vmm_communication_exception) == 16 * 29,
            "C12.Idt_field.vmm_communication_exception.at_16v: vector 29"
        );
        assert!(
            offset_of!(T, security_exception) == 16 * 30,
            "C12.Idt_field.security_exception.at_16v: vector 30"
        );
        assert!(offset_of!(T, reserved_3) == 16 * 31, "C12.Idt_field.reserved_3.at_16v: vector 31");
        assert!(
            offset_of!(T, interrupts) == 16 * 32 && size_of::<[Entry<HandlerFunc>; 224]>() == 16 * 224,
            "C12.Idt_field.interrupts.at_16v: vectors 32..=255"
        );
    }

    /// The same through pointer differences on a real table value (the public
    /// fields an OS writes to), plus the handler type each field has.
    //@ obligation C12 C12.Idt_field.pointer_difference_at_16v
    #[kani::proof]
    fn c12_named_field_pointers() {
        kani::cover!(true, "c12_named_field_pointers: reachable");
        let idt = InterruptDescriptorTable::new();
        // the type annotations are part of the check: error-code vectors carry the
        // error-code handler types, #DF / #MC the diverging ones, #PF its own
        let f0: &Entry<HandlerFunc> = &idt.divide_error;
        let f1: &Entry<HandlerFunc> = &idt.debug;
        let f2: &Entry<HandlerFunc> = &idt.non_maskable_interrupt;
        let f3: &Entry<HandlerFunc> = &idt.breakpoint;
        let f4: &Entry<HandlerFunc> = &idt.overflow;
        let f5: &Entry<HandlerFunc> = &idt.bound_range_exceeded;
        let f6: &Entry<HandlerFunc> = &idt.invalid_opcode;
        let f7: &Entry<HandlerFunc> = &idt.device_not_available;
        let f8: &Entry<DivergingHandlerFuncWithErrCode> = &idt.double_fault;
        let f10: &Entry<HandlerFuncWithErrCode> = &idt.invalid_tss;
        let f11: &Entry<HandlerFuncWithErrCode> = &idt.segment_not_present;
        let f12: &Entry<HandlerFuncWithErrCode> = &idt.stack_segment_fault;
        let f13: &Entry<HandlerFuncWithErrCode> = &idt.general_protection_fault;
        let f14: &Entry<PageFaultHandlerFunc> = &idt.page_fault;
        let f16: &Entry<HandlerFunc> = &idt.x87_floating_point;
        let f17: &Entry<HandlerFuncWithErrCode> = &idt.alignment_check;
        let f18: &Entry<DivergingHandlerFunc> = &idt.machine_check;
        let f19: &Entry<HandlerFunc> = &idt.simd_floating_point;
        let f20: &Entry<HandlerFunc> = &idt.virtualization;
        let f21: &Entry<HandlerFuncWithErrCode> = &idt.cp_protection_exception;
        let f28: &Entry<HandlerFunc> = &idt.hv_injection_exception;
        let f29: &Entry<HandlerFuncWithErrCode> = &idt.vmm_communication_exception;
        let f30: &Entry<HandlerFuncWithErrCode> = &idt.security_exception;
        assert!(
            off(&idt, f0) == 0
                && off(&idt, f1) == 16
                && off(&idt, f2) == 32
                && off(&idt, f3) == 48
                && off(&idt, f4) == 64
                && off(&idt, f5) == 80
                && off(&idt, f6) == 96
                && off(&idt, f7) == 112
                && off(&idt, f8) == 128
                && off(&idt, f10) == 160
                && off(&idt, f11) == 176
                && off(&idt, f12) == 192
                && off(&idt, f13) == 208
                && off(&idt, f14) == 224,
            "C12.Idt_field.pointer_difference_at_16v: vectors 0..=14"
        );
        assert!(
            off(&idt, f16) == 256
                && off(&idt, f17) == 272
                && off(&idt, f18) == 288
                && off(&idt, f19) == 304
                && off(&idt, f20) == 320
                && off(&idt, f21) == 336
                && off(&idt, f28) == 448
                && off(&idt, f29) == 464
                && off(&idt, f30) == 480,
            "C12.Idt_field.pointer_difference_at_16v: vectors 16..=30"
        );
    }

    // ---------------------------------------------------------- Index<u8>

    /// Accepting half of "returns iff": for every vector that is neither
    /// reserved nor of another signature, `idt[v]` returns the entry at 16v.
    //@ obligation C12 C12.Idt_index_u8.returns_entry_at_16v
    #[kani::proof]
    fn c12_index_u8_accepts() {
        let v: u8 = kani::any();
        kani::assume(!is_reserved(v) && !has_other_signature(v));
        kani::cover!(true, "c12_index_u8_accepts: reachable");
        kani::cover!(v == 9, "c12_index_u8_accepts: vector 9 is indexable");
        kani::cover!(v == 255, "c12_index_u8_accepts: vector 255");
        let idt = InterruptDescriptorTable::new();
        let e: &Entry<HandlerFunc> = &idt[v];
        assert!(
            off(&idt, e) == 16 * v as isize,
            "C12.Idt_index_u8.returns_entry_at_16v: &idt[v] is at byte 16 * v"
        );
    }

    //@ obligation C12 C12.Idt_index_mut_u8.returns_entry_at_16v
    #[kani::proof]
    fn c12_index_mut_u8_accepts() {
        let v: u8 = kani::any();
        kani::assume(!is_reserved(v) && !has_other_signature(v));
        kani::cover!(true, "c12_index_mut_u8_accepts: reachable");
        let mut idt = InterruptDescriptorTable::new();
        let p = {
            let e: &mut Entry<HandlerFunc> = &mut idt[v];
            e as *mut Entry<HandlerFunc> as *const u8
        };
        let base = &idt as *const InterruptDescriptorTable as *const u8;
        assert!(
            unsafe { p.offset_from(base) } == 16 * v as isize,
            "C12.Idt_index_mut_u8.returns_entry_at_16v: &mut idt[v] is at byte 16 * v"
        );
    }

    /// Rejecting half: every reserved vector and every vector with another
    /// handler signature panics (sound should_panic formulation).
    //@ obligation C12 C12.Idt_index_u8.refuses_reserved_and_other_signature
    #[kani::proof]
    #[kani::should_panic]
    fn c12_index_u8_rejects() {
        let v: u8 = kani::any();
        kani::assume(is_reserved(v) || has_other_signature(v));
        kani::cover!(true, "c12_index_u8_rejects: reachable");
        let idt = InterruptDescriptorTable::new();
        let _e = &idt[v];
        returned_on_invalid_input();
    }

    //@ obligation C12 C12.Idt_index_mut_u8.refuses_reserved_and_other_signature
    #[kani::proof]
    #[kani::should_panic]
    fn c12_index_mut_u8_rejects() {
        let v: u8 = kani::any();
        kani::assume(is_reserved(v) || has_other_signature(v));
        kani::cover!(true, "c12_index_mut_u8_rejects: reachable");
        let mut idt = InterruptDescriptorTable::new();
        let _e = &mut idt[v];
        returned_on_invalid_input();
    }
}
