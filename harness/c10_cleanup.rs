//@ include-into src/structures/paging/mapper/mapped_page_table.rs
//
// C10: `CleanUp::clean_up_addr_range` of MappedPageTable<P> (`CleanUp::clean_up`, the whole address
// space, does not finish: see the end of this file).
// BOUNDED check: every harness runs the real function ONCE (and then once more, for the
// "repeating deallocates nothing" clause) on one hand-picked, fully CONCRETE page-table hierarchy
// and a concrete page range. See lib/C10_NOTES.md for why nothing about the tables may be symbolic
// (CBMC propagates constants through a 512-entry table only while the table is an array LITERAL;
// a table written through `table[i] = w` is an `array_of .. with ..` expression, which symex never
// propagates, and then every one of the nested 512-iteration scans forks).
//
//   Pool     7 SEPARATE PageTable objects (never one array: Kani hangs), each initialised from a
//            `const [u64; 512]`; frame -> table through an if-chain over 7 concrete frame addresses;
//            every other frame maps to the null pointer, so descending into a huge-page frame or a
//            data frame is a Kani pointer-check failure. (Same construction as the C01 step
//            harnesses' pool, copied here so that this file does not depend on another harness file.)
//   hw_walk  the oracle for "no address's translation changes": a hardware-style 4-level walk over
//            the RAW words (SDM vol. 3A 4.5), independent of the crate's accessors; evaluated for ONE
//            SYMBOLIC canonical address before and after the call, i.e. for every address.
//   Log      the deallocator: frames in call order and, per call, the word the parent slot held at
//            that moment and the word the table held, at that moment, in one SYMBOLIC slot chosen
//            before the call ("0 for every choice of the slot" = the table was entirely empty then).
//   Scenario per harness: the 7 tables, the parent slot of every linked table, the range, and two
//            hand-derived sets taken from the property statement:
//              allowed[k]   table k is a level-1..3 table that overlaps the range and is empty or
//                           becomes empty once its allowed children are gone  (may be freed)
//              required[k]  additionally lies WHOLLY inside the range         (must be freed)
//            The statement leaves open whether an empty table that overlaps the range only partly is
//            freed; the harnesses accept both.
//   Frame    one symbolic (table, slot): the word is 0 if it is the parent slot of a freed table and
//            unchanged otherwise - for all 7 x 512 words, in particular every table outside the range.
//   ob!      every clause is `if pick == i && !cond { assert(false, "C10.<scenario>.<clause>: ..") }`
//            and the `reachable` cover sits BEFORE the call under test: both because of what a
//            counterexample trace through clean_up costs (C10_NOTES.md section 2).

#[cfg(kani)]
#[allow(dead_code)]
pub(in crate::structures::paging::mapper) mod verif_c10_cleanup {
    use super::*;

    // ---- architecture constants, written from the SDM, not taken from the crate
    pub(in crate::structures::paging::mapper) const P: u64 = 1;
    pub(in crate::structures::paging::mapper) const RW: u64 = 1 << 1;
    pub(in crate::structures::paging::mapper) const US: u64 = 1 << 2;
    pub(in crate::structures::paging::mapper) const PS: u64 = 1 << 7;
    pub(in crate::structures::paging::mapper) const ADDR: u64 = 0x000f_ffff_ffff_f000;
    pub(in crate::structures::paging::mapper) const ADDR_2M: u64 = 0x000f_ffff_ffe0_0000;
    pub(in crate::structures::paging::mapper) const ADDR_1G: u64 = 0x000f_ffff_c000_0000;
    pub(in crate::structures::paging::mapper) const SZ_4K: u64 = 1 << 12;
    pub(in crate::structures::paging::mapper) const SZ_2M: u64 = 1 << 21;
    pub(in crate::structures::paging::mapper) const SZ_1G: u64 = 1 << 30;

    pub(in crate::structures::paging::mapper) const NT: usize = 7;
    pub(in crate::structures::paging::mapper) const NONE: usize = 7;
    /// frame addresses of the 7 pool tables. F[4] is 2 MiB aligned on purpose: scenario
    /// `huge_pages` maps a 2 MiB page onto the physical range that contains table 4.
    pub(in crate::structures::paging::mapper) const F: [u64; NT] = [0x10_0000, 0x10_1000, 0x10_2000, 0x10_3000, 0x20_0000, 0x10_5000, 0x10_6000];
    pub(in crate::structures::paging::mapper) const TBL: u64 = P | RW | US; // flags of an entry that points to a table

    pub(in crate::structures::paging::mapper) fn entry_from(w: u64) -> PageTableEntry {
        unsafe { core::mem::transmute::<u64, PageTableEntry>(w) }
    }
    pub(in crate::structures::paging::mapper) fn raw(e: &PageTableEntry) -> u64 {
        unsafe { *(e as *const PageTableEntry as *const u64) }
    }
    pub(in crate::structures::paging::mapper) const fn tbl(words: &[(usize, u64)]) -> [u64; 512] {
        let mut a = [0u64; 512];
        let mut i = 0;
        while i < words.len() {
            a[words[i].0] = words[i].1;
            i += 1;
        }
        a
    }
    pub(in crate::structures::paging::mapper) fn table_from(a: [u64; 512]) -> PageTable {
        unsafe { core::mem::transmute::<[u64; 512], PageTable>(a) }
    }
    pub(in crate::structures::paging::mapper) const EMPTY: [u64; 512] = tbl(&[]);

    // ------------------------------------------------------------------ pool

    #[derive(Clone, Copy, Debug)]
    pub(in crate::structures::paging::mapper) struct Pool {
        pub p: [*mut PageTable; NT],
    }
    unsafe impl PageTableFrameMapping for Pool {
        fn frame_to_pointer(&self, frame: PhysFrame) -> *mut PageTable {
            let k = lookup(frame.start_address().as_u64());
            if k == NONE {
                core::ptr::null_mut()
            } else {
                self.p[k]
            }
        }
    }
    /// index of the pool table whose frame address is `a`, NONE if `a` is not a page-table frame
    pub(in crate::structures::paging::mapper) fn lookup(a: u64) -> usize {
        if a == F[0] {
            0
        } else if a == F[1] {
            1
        } else if a == F[2] {
            2
        } else if a == F[3] {
            3
        } else if a == F[4] {
            4
        } else if a == F[5] {
            5
        } else if a == F[6] {
            6
        } else {
            NONE
        }
    }
    impl Pool {
        pub fn rd(&self, k: usize, i: usize) -> u64 {
            raw(unsafe { &(&*self.p[k])[i] })
        }
    }

    macro_rules! c10_pool {
        ($pool:ident, $t:expr) => {
            let mut t0 = table_from($t[0]);
            let mut t1 = table_from($t[1]);
            let mut t2 = table_from($t[2]);
            let mut t3 = table_from($t[3]);
            let mut t4 = table_from($t[4]);
            let mut t5 = table_from($t[5]);
            let mut t6 = table_from($t[6]);
            let $pool = Pool {
                p: [
                    &mut t0 as *mut PageTable,
                    &mut t1 as *mut PageTable,
                    &mut t2 as *mut PageTable,
                    &mut t3 as *mut PageTable,
                    &mut t4 as *mut PageTable,
                    &mut t5 as *mut PageTable,
                    &mut t6 as *mut PageTable,
                ],
            };
        };
    }

    // ------------------------------------------------------------------ the oracle

    pub(in crate::structures::paging::mapper) const NOT_MAPPED: u8 = 0;
    pub(in crate::structures::paging::mapper) const MAPPED: u8 = 1;
    pub(in crate::structures::paging::mapper) const MALFORMED: u8 = 2;

    #[derive(Clone, Copy, PartialEq, Eq)]
    pub(in crate::structures::paging::mapper) struct Walk {
        pub kind: u8,
        pub phys: u64,
        pub size: u64,
        pub leaf: u64, // the whole leaf word
        pub pw: bool,  // every non-leaf entry on the walk has R/W
        pub pu: bool,  // every non-leaf entry on the walk has U/S
    }
    pub(in crate::structures::paging::mapper) const NM: Walk = Walk { kind: NOT_MAPPED, phys: 0, size: 0, leaf: 0, pw: false, pu: false };
    pub(in crate::structures::paging::mapper) const BAD: Walk = Walk { kind: MALFORMED, phys: 0, size: 0, leaf: 0, pw: false, pu: false };

    pub(in crate::structures::paging::mapper) fn canonical(a: u64) -> bool {
        let top = a >> 47;
        top == 0 || top == 0x1_ffff
    }

    /// What an MMU with CR3 = frame of table 0 does with virtual address `v`.
    pub(in crate::structures::paging::mapper) fn hw_walk(pool: &Pool, v: u64) -> Walk {
        let i4 = ((v >> 39) & 511) as usize;
        let i3 = ((v >> 30) & 511) as usize;
        let i2 = ((v >> 21) & 511) as usize;
        let i1 = ((v >> 12) & 511) as usize;
        let e4 = pool.rd(0, i4);
        if e4 & P == 0 {
            return NM;
        }
        if e4 & PS != 0 {
            return BAD;
        }
        let k3 = lookup(e4 & ADDR);
        if k3 == NONE {
            return BAD;
        }
        let (pw, pu) = (e4 & RW != 0, e4 & US != 0);
        let e3 = pool.rd(k3, i3);
        if e3 & P == 0 {
            return NM;
        }
        if e3 & PS != 0 {
            return Walk { kind: MAPPED, phys: (e3 & ADDR_1G) | (v & (SZ_1G - 1)), size: SZ_1G, leaf: e3, pw, pu };
        }
        let k2 = lookup(e3 & ADDR);
        if k2 == NONE {
            return BAD;
        }
        let (pw, pu) = (pw && e3 & RW != 0, pu && e3 & US != 0);
        let e2 = pool.rd(k2, i2);
        if e2 & P == 0 {
            return NM;
        }
        if e2 & PS != 0 {
            return Walk { kind: MAPPED, phys: (e2 & ADDR_2M) | (v & (SZ_2M - 1)), size: SZ_2M, leaf: e2, pw, pu };
        }
        let k1 = lookup(e2 & ADDR);
        if k1 == NONE {
            return BAD;
        }
        let (pw, pu) = (pw && e2 & RW != 0, pu && e2 & US != 0);
        let e1 = pool.rd(k1, i1);
        if e1 & P == 0 {
            return NM;
        }
        Walk { kind: MAPPED, phys: (e1 & ADDR) | (v & (SZ_4K - 1)), size: SZ_4K, leaf: e1, pw, pu }
    }

    // ------------------------------------------------------------------ the deallocator

    pub(in crate::structures::paging::mapper) const LOGN: usize = 8;
    /// (parent table, slot) of every pool table in the pre-state; (NONE, 0) = not linked
    pub(in crate::structures::paging::mapper) type Parents = [(usize, usize); NT];
    pub(in crate::structures::paging::mapper) const NOP: (usize, usize) = (NONE, 0);

    pub(in crate::structures::paging::mapper) struct Log {
        pub pool: Pool,
        pub parent: Parents,
        pub n: usize,
        pub freed: [u64; LOGN],
        /// the word in the parent slot at the moment of the call (u64::MAX: not a linked pool table)
        pub parent_word: [u64; LOGN],
        /// a slot number chosen by the solver (the same for every call) ...
        pub probe: usize,
        /// ... and the word the deallocated table held in that slot at the moment of the call: the
        /// table was entirely empty at that moment iff this is 0 for every choice of `probe`.
        /// (A 512-iteration scan here instead would cost 10 MB of counterexample trace per
        /// deallocation in every later reachability witness, see C10_NOTES.md.)
        pub word_at_probe: [u64; LOGN],
    }
    impl FrameDeallocator<Size4KiB> for Log {
        unsafe fn deallocate_frame(&mut self, frame: PhysFrame<Size4KiB>) {
            let a = frame.start_address().as_u64();
            let k = lookup(a);
            if self.n < LOGN {
                self.freed[self.n] = a;
                if k != NONE && self.parent[k].0 != NONE {
                    self.parent_word[self.n] = self.pool.rd(self.parent[k].0, self.parent[k].1);
                } else {
                    self.parent_word[self.n] = u64::MAX;
                }
                self.word_at_probe[self.n] = if k != NONE { self.pool.rd(k, self.probe) } else { u64::MAX };
            }
            self.n += 1;
        }
    }
    pub(in crate::structures::paging::mapper) fn new_log(pool: &Pool, parent: Parents, probe: usize) -> Log {
        Log { pool: *pool, parent, n: 0, freed: [0; LOGN], parent_word: [0; LOGN], probe, word_at_probe: [0; LOGN] }
    }
    pub(in crate::structures::paging::mapper) fn times_freed(log: &Log, a: u64) -> usize {
        let mut c = 0;
        let mut j = 0;
        while j < LOGN {
            if j < log.n && log.freed[j] == a {
                c += 1;
            }
            j += 1;
        }
        c
    }
    /// every deallocated frame is an allowed pool table (never table 0 = level 4, never a frame that
    /// is not a table of the hierarchy) and that table held 0 in the probe slot at that moment
    pub(in crate::structures::paging::mapper) fn only_allowed_empty(log: &Log, allowed: &[bool; NT]) -> bool {
        let mut ok = log.n <= LOGN;
        let mut j = 0;
        while j < LOGN {
            if j < log.n {
                let k = lookup(log.freed[j]);
                ok = ok && k != NONE && k != 0 && allowed[k] && log.word_at_probe[j] == 0;
            }
            j += 1;
        }
        ok
    }
    /// each frame at most once, and its parent slot was already 0 when it was handed back
    pub(in crate::structures::paging::mapper) fn once_and_unlinked_first(log: &Log) -> bool {
        let mut ok = true;
        let mut j = 0;
        while j < LOGN {
            if j < log.n {
                ok = ok && log.parent_word[j] == 0 && times_freed(log, log.freed[j]) == 1;
            }
            j += 1;
        }
        ok
    }
    pub(in crate::structures::paging::mapper) fn required_freed(log: &Log, required: &[bool; NT]) -> bool {
        let mut ok = true;
        let mut k = 1;
        while k < NT {
            ok = ok && (!required[k] || times_freed(log, F[k]) == 1);
            k += 1;
        }
        ok
    }
    /// the word slot (k, s) must hold after the call: 0 if it linked a table that was deallocated
    pub(in crate::structures::paging::mapper) fn dictated(log: &Log, parent: &Parents, k: usize, s: usize, pre: u64) -> u64 {
        let mut want = pre;
        let mut c = 1;
        while c < NT {
            if parent[c].0 == k && parent[c].1 == s && times_freed(log, F[c]) > 0 {
                want = 0;
            }
            c += 1;
        }
        want
    }
    /// Runs every oracle helper and the deallocator once on a made-up log BEFORE the call under
    /// test. Two purposes: (1) the helpers are checked against hand-computed answers; (2) Kani adds
    /// a reachability check to every arithmetic / bounds check in them, CBMC emits one
    /// counterexample trace per reachable check, and the trace ends where the check is FIRST
    /// reached: reached here, the trace is a few kB; reached only after clean_up, it is 150 MB.
    pub(in crate::structures::paging::mapper) fn oracle_selftest(pool: &Pool) -> bool {
        let parent: Parents = [NOP, (0, 0), (1, 0), NOP, NOP, NOP, NOP];
        let mut lg = new_log(pool, parent, 0);
        unsafe {
            lg.deallocate_frame(PhysFrame::from_start_address(PhysAddr::new(F[2])).unwrap());
            lg.deallocate_frame(PhysFrame::from_start_address(PhysAddr::new(F[3])).unwrap());
            lg.deallocate_frame(PhysFrame::from_start_address(PhysAddr::new(F[2])).unwrap());
            lg.deallocate_frame(PhysFrame::from_start_address(PhysAddr::new(0x7000_0000)).unwrap());
        }
        let mut ok = lg.n == 4 && times_freed(&lg, F[2]) == 2 && times_freed(&lg, F[3]) == 1 && times_freed(&lg, F[1]) == 0;
        ok = ok && lg.parent_word[0] == pool.rd(1, 0) && lg.parent_word[1] == u64::MAX && lg.parent_word[3] == u64::MAX && lg.word_at_probe[3] == u64::MAX && lg.word_at_probe[0] == pool.rd(2, 0);
        // the unknown frame, the double free and the linked parent are all reported
        ok = ok && !only_allowed_empty(&lg, &[false, true, true, true, false, false, false]);
        ok = ok && !once_and_unlinked_first(&lg);
        ok = ok && required_freed(&lg, &[false, false, false, true, false, false, false]);
        ok = ok && !required_freed(&lg, &[false, true, false, false, false, false, false]);
        ok = ok && !required_freed(&lg, &[false, false, true, false, false, false, false]);
        ok = ok && dictated(&lg, &parent, 1, 0, 5) == 0 && dictated(&lg, &parent, 0, 0, 5) == 5 && dictated(&lg, &parent, 1, 1, 5) == 5;
        lg.n = 1;
        lg.parent_word[0] = 0;
        lg.word_at_probe[0] = 0;
        ok = ok && only_allowed_empty(&lg, &[false, false, true, false, false, false, false]);
        ok = ok && !only_allowed_empty(&lg, &[false, true, false, true, true, true, true]);
        ok = ok && once_and_unlinked_first(&lg);
        lg.word_at_probe[0] = 8;
        ok = ok && !only_allowed_empty(&lg, &[false, false, true, false, false, false, false]);
        ok
    }

    pub(in crate::structures::paging::mapper) fn pg(v: u64) -> Page<Size4KiB> {
        Page::from_start_address(VirtAddr::new(v)).unwrap()
    }

    /// `assert!(cond, msg)`, written so that Kani's reachability check of the assertion is
    /// UNREACHABLE while the clause holds: a reachable check after the call under test costs one
    /// full-length counterexample trace (40 s and 0.5 GB of JSON each, see C10_NOTES.md).
    /// `$pick` is a symbolic selector and `$i` the clause number: every clause fails on its own
    /// path (Kani's assert also assumes its condition, so in a plain sequence the first failing
    /// clause would hide the others).
    macro_rules! ob {
        ($pick:ident, $i:literal, $cond:expr, $msg:expr $(,)?) => {
            if $pick == $i && !($cond) {
                kani::assert(false, $msg);
            }
        };
    }

    /// `$call` is `|mapper, log| unsafe { .. }`-like: an expression using `$m` and `$l`.
    macro_rules! scenario {
        ($name:literal, $tables:expr, $parent:expr, $allowed:expr, $required:expr, |$m:ident, $l:ident| $call:expr) => {{
            const T: [[u64; 512]; NT] = $tables;
            let parent: Parents = $parent;
            let allowed: [bool; NT] = $allowed;
            let required: [bool; NT] = $required;
            c10_pool!(pool, T);
            let v: u64 = kani::any();
            kani::assume(canonical(v));
            let w_pre = hw_walk(&pool, v);
            let k: usize = kani::any();
            let s: usize = kani::any();
            kani::assume(k < NT && s < 512);
            let pick: u8 = kani::any();
            let pre = pool.rd(k, s);

            ob!(pick, 1, oracle_selftest(&pool), concat!("C10.", $name, ".only_empty_overlapping_tables_freed: (harness sanity) the oracle helpers give the hand-computed answers on a made-up log"));

            // The vacuity guard sits after the assumptions and BEFORE the call: a witness for a cover
            // placed after the call is a full-length trace (measured: +110 s per harness).
            kani::cover(true, concat!("c10_", $name, ": reachable"));

            let mut log = new_log(&pool, parent, s);
            let mut mapper = unsafe { MappedPageTable::new(&mut *pool.p[0], pool) };
            {
                let $m = &mut mapper;
                let $l = &mut log;
                $call;
            }
            let w_post = hw_walk(&pool, v);
            let mid = pool.rd(k, s);

            ob!(pick, 2, w_pre.kind != MALFORMED, concat!("C10.", $name, ".translation_unchanged: (harness sanity) the scenario's pre-state is well formed"));
            ob!(pick, 3, only_allowed_empty(&log, &allowed),
                concat!("C10.", $name, ".only_empty_overlapping_tables_freed: every deallocated frame is a level-1..3 table of the hierarchy that overlaps the range and was all zero at that moment; never the level-4 table, a table holding an entry, a huge-page frame"),
            );
            ob!(pick, 4, once_and_unlinked_first(&log),
                concat!("C10.", $name, ".each_once_after_unlink: every frame is deallocated at most once and its parent slot was already cleared"),
            );
            ob!(pick, 5, required_freed(&log, &required),
                concat!("C10.", $name, ".no_empty_table_left_inside_range: every table wholly inside the range that is (or becomes) empty was deallocated"),
            );
            ob!(pick, 6, mid == dictated(&log, &parent, k, s, pre),
                concat!("C10.", $name, ".only_parent_slots_of_freed_tables_change: every word of every table is unchanged, except that the slot that linked a deallocated table is 0"),
            );
            ob!(pick, 7, w_post == w_pre, concat!("C10.", $name, ".translation_unchanged: the hardware walk of an arbitrary canonical address gives the same result as before"));

            // once more
            let mut log2 = new_log(&pool, parent, s);
            {
                let $m = &mut mapper;
                let $l = &mut log2;
                $call;
            }
            ob!(pick, 8, log2.n == 0, concat!("C10.", $name, ".repeat_frees_nothing: a second clean-up deallocates nothing"));
            ob!(pick, 9, pool.rd(k, s) == mid, concat!("C10.", $name, ".repeat_frees_nothing: a second clean-up writes nothing"));
        }};
    }

    // ================================================================== scenarios
    // quick tier: at most one table is actually freed and every index is small (an `all(is_unused)`
    // over an all-zero table is 512 unwound iterations, 7-10 s of symex, over a table with an entry in a
    // low slot it stops early; `skip(n)` is n unwound iterations of `advance_by`, 20 s for n = 511)

    // window_p1: P4[0] -> T1, T1[0] -> T2, T2[0] -> T3; T3 maps page 5 (slot 5). Range = pages 0..=1.
    // T3 overlaps the range and its slots 0..=1 are empty, but it holds an entry: nothing may be freed.
    // (An emptiness check restricted to the slots inside the range frees T3, then T2, T1.)
    //@ obligation C10 C10.window_p1.only_empty_overlapping_tables_freed bounded="concrete pre-state scenario window_p1; pool of 7 tables"
    //@ obligation C09 C09.window_p1.only_empty_overlapping_tables_freed bounded="concrete pre-state scenario window_p1; pool of 7 tables"
    //@ obligation C10 C10.window_p1.each_once_after_unlink bounded="concrete pre-state scenario window_p1; pool of 7 tables"
    //@ obligation C10 C10.window_p1.no_empty_table_left_inside_range bounded="concrete pre-state scenario window_p1; pool of 7 tables"
    //@ obligation C10 C10.window_p1.only_parent_slots_of_freed_tables_change bounded="concrete pre-state scenario window_p1; pool of 7 tables"
    //@ obligation C09 C09.window_p1.only_parent_slots_of_freed_tables_change bounded="concrete pre-state scenario window_p1; pool of 7 tables"
    //@ obligation C10 C10.window_p1.translation_unchanged bounded="concrete pre-state scenario window_p1; pool of 7 tables"
    //@ obligation C01 C01.window_p1.translation_unchanged bounded="concrete pre-state scenario window_p1; pool of 7 tables"
    //@ obligation C10 C10.window_p1.repeat_frees_nothing bounded="concrete pre-state scenario window_p1; pool of 7 tables"
    #[kani::proof]
    #[kani::unwind(513)]
    fn c10_window_p1() {
        scenario!(
            "window_p1",
            [tbl(&[(0, F[1] | TBL)]), tbl(&[(0, F[2] | TBL)]), tbl(&[(0, F[3] | TBL)]), tbl(&[(5, 0x5000_0000 | P | RW)]), EMPTY, EMPTY, EMPTY],
            [NOP, (0, 0), (1, 0), (2, 0), NOP, NOP, NOP],
            [false, false, false, false, false, false, false],
            [false, false, false, false, false, false, false],
            |m, l| unsafe { m.clean_up_addr_range(Page::range_inclusive(pg(0), pg(0x1000)), l) }
        );
    }

    // window_p2: ... T2[0] -> T3 (empty), T2[3] = a non-present but non-zero word (software-defined,
    // e.g. a swapped-out marker). Range = exactly the 2 MiB span of T3. T3 lies wholly inside: must be freed.
    // T2 then has slot 0 clear but still holds the word in slot 3 (outside the range): must be kept.
    //@ obligation C10 C10.window_p2.only_empty_overlapping_tables_freed bounded="concrete pre-state scenario window_p2; pool of 7 tables"
    //@ obligation C09 C09.window_p2.only_empty_overlapping_tables_freed bounded="concrete pre-state scenario window_p2; pool of 7 tables"
    //@ obligation C10 C10.window_p2.each_once_after_unlink bounded="concrete pre-state scenario window_p2; pool of 7 tables"
    //@ obligation C10 C10.window_p2.no_empty_table_left_inside_range bounded="concrete pre-state scenario window_p2; pool of 7 tables"
    //@ obligation C10 C10.window_p2.only_parent_slots_of_freed_tables_change bounded="concrete pre-state scenario window_p2; pool of 7 tables"
    //@ obligation C09 C09.window_p2.only_parent_slots_of_freed_tables_change bounded="concrete pre-state scenario window_p2; pool of 7 tables"
    //@ obligation C10 C10.window_p2.translation_unchanged bounded="concrete pre-state scenario window_p2; pool of 7 tables"
    //@ obligation C01 C01.window_p2.translation_unchanged bounded="concrete pre-state scenario window_p2; pool of 7 tables"
    //@ obligation C10 C10.window_p2.repeat_frees_nothing bounded="concrete pre-state scenario window_p2; pool of 7 tables"
    #[kani::proof]
    #[kani::unwind(513)]
    fn c10_window_p2() {
        scenario!(
            "window_p2",
            [tbl(&[(0, F[1] | TBL)]), tbl(&[(0, F[2] | TBL)]), tbl(&[(0, F[3] | TBL), (3, 0x8000_0000_0000_0200)]), EMPTY, EMPTY, EMPTY, EMPTY],
            [NOP, (0, 0), (1, 0), (2, 0), NOP, NOP, NOP],
            [false, false, false, true, false, false, false],
            [false, false, false, true, false, false, false],
            |m, l| unsafe { m.clean_up_addr_range(Page::range_inclusive(pg(0), pg(0x1f_f000)), l) }
        );
    }

    // huge_pages: P4[0] -> T1; T1[0] = 1 GiB page (frame 0x4000_0000: not a table, the pool answers null);
    // T1[1] -> T2; T2[0] = 2 MiB page whose frame is F[4], the frame of pool table 4 (an unlinked, all-zero
    // table that happens to live in the mapped physical range); T2[1] -> T3 (empty).
    // Range = last page of the first GiB ..= end of T3's span, so both huge entries are inside the scanned
    // windows. Only T3 may and must go. Descending into the 1 GiB entry dereferences null; descending into
    // the 2 MiB entry finds the all-zero table 4, "frees" the data frame F[4] and unmaps the 2 MiB page.
    //@ obligation C10 C10.huge_pages.only_empty_overlapping_tables_freed bounded="concrete pre-state scenario huge_pages; pool of 7 tables"
    //@ obligation C09 C09.huge_pages.only_empty_overlapping_tables_freed bounded="concrete pre-state scenario huge_pages; pool of 7 tables"
    //@ obligation C10 C10.huge_pages.each_once_after_unlink bounded="concrete pre-state scenario huge_pages; pool of 7 tables"
    //@ obligation C10 C10.huge_pages.no_empty_table_left_inside_range bounded="concrete pre-state scenario huge_pages; pool of 7 tables"
    //@ obligation C10 C10.huge_pages.only_parent_slots_of_freed_tables_change bounded="concrete pre-state scenario huge_pages; pool of 7 tables"
    //@ obligation C09 C09.huge_pages.only_parent_slots_of_freed_tables_change bounded="concrete pre-state scenario huge_pages; pool of 7 tables"
    //@ obligation C10 C10.huge_pages.translation_unchanged bounded="concrete pre-state scenario huge_pages; pool of 7 tables"
    //@ obligation C01 C01.huge_pages.translation_unchanged bounded="concrete pre-state scenario huge_pages; pool of 7 tables"
    //@ obligation C10 C10.huge_pages.repeat_frees_nothing bounded="concrete pre-state scenario huge_pages; pool of 7 tables"
    #[kani::proof]
    #[kani::unwind(513)]
    fn c10_huge_pages() {
        scenario!(
            "huge_pages",
            [tbl(&[(0, F[1] | TBL)]), tbl(&[(0, 0x4000_0000 | P | RW | PS), (1, F[2] | TBL)]), tbl(&[(0, F[4] | P | RW | PS), (1, F[3] | TBL)]), EMPTY, EMPTY, EMPTY, EMPTY],
            [NOP, (0, 0), (1, 1), (2, 1), NOP, NOP, NOP],
            [false, false, false, true, false, false, false],
            [false, false, false, true, false, false, false],
            |m, l| unsafe { m.clean_up_addr_range(Page::range_inclusive(pg(0x3fff_f000), pg(0x403f_f000)), l) }
        );
    }

    // middle_p1: T2[0] -> T3, T2[1] -> T4, T2[2] -> T5, all three level-1 tables empty.
    // Range = exactly the span of T4 (0x20_0000 ..= 0x3f_f000). T4 must go; T3 and T5 do not overlap the
    // range and must stay (they go when the sub-range handed down is not clamped to the range).
    //@ obligation C10 C10.middle_p1.only_empty_overlapping_tables_freed bounded="concrete pre-state scenario middle_p1; pool of 7 tables"
    //@ obligation C09 C09.middle_p1.only_empty_overlapping_tables_freed bounded="concrete pre-state scenario middle_p1; pool of 7 tables"
    //@ obligation C10 C10.middle_p1.each_once_after_unlink bounded="concrete pre-state scenario middle_p1; pool of 7 tables"
    //@ obligation C10 C10.middle_p1.no_empty_table_left_inside_range bounded="concrete pre-state scenario middle_p1; pool of 7 tables"
    //@ obligation C10 C10.middle_p1.only_parent_slots_of_freed_tables_change bounded="concrete pre-state scenario middle_p1; pool of 7 tables"
    //@ obligation C09 C09.middle_p1.only_parent_slots_of_freed_tables_change bounded="concrete pre-state scenario middle_p1; pool of 7 tables"
    //@ obligation C10 C10.middle_p1.translation_unchanged bounded="concrete pre-state scenario middle_p1; pool of 7 tables"
    //@ obligation C01 C01.middle_p1.translation_unchanged bounded="concrete pre-state scenario middle_p1; pool of 7 tables"
    //@ obligation C10 C10.middle_p1.repeat_frees_nothing bounded="concrete pre-state scenario middle_p1; pool of 7 tables"
    #[kani::proof]
    #[kani::unwind(513)]
    fn c10_middle_p1() {
        scenario!(
            "middle_p1",
            [tbl(&[(0, F[1] | TBL)]), tbl(&[(0, F[2] | TBL)]), tbl(&[(0, F[3] | TBL), (1, F[4] | TBL), (2, F[5] | TBL)]), EMPTY, EMPTY, EMPTY, EMPTY],
            [NOP, (0, 0), (1, 0), (2, 0), (2, 1), (2, 2), NOP],
            [false, false, false, false, true, false, false],
            [false, false, false, false, true, false, false],
            |m, l| unsafe { m.clean_up_addr_range(Page::range_inclusive(pg(0x20_0000), pg(0x3f_f000)), l) }
        );
    }

    // two_p1_boundary: T2[0] -> T3 (empty), T2[1] -> T4 (maps its page 7). Range = last page of T3 ..= first
    // page of T4. T3 overlaps and is empty (may go, need not: it is not wholly inside); T4 holds an entry.
    //@ obligation C10 C10.two_p1_boundary.only_empty_overlapping_tables_freed bounded="concrete pre-state scenario two_p1_boundary; pool of 7 tables"
    //@ obligation C09 C09.two_p1_boundary.only_empty_overlapping_tables_freed bounded="concrete pre-state scenario two_p1_boundary; pool of 7 tables"
    //@ obligation C10 C10.two_p1_boundary.each_once_after_unlink bounded="concrete pre-state scenario two_p1_boundary; pool of 7 tables"
    //@ obligation C10 C10.two_p1_boundary.no_empty_table_left_inside_range bounded="concrete pre-state scenario two_p1_boundary; pool of 7 tables"
    //@ obligation C10 C10.two_p1_boundary.only_parent_slots_of_freed_tables_change bounded="concrete pre-state scenario two_p1_boundary; pool of 7 tables"
    //@ obligation C09 C09.two_p1_boundary.only_parent_slots_of_freed_tables_change bounded="concrete pre-state scenario two_p1_boundary; pool of 7 tables"
    //@ obligation C10 C10.two_p1_boundary.translation_unchanged bounded="concrete pre-state scenario two_p1_boundary; pool of 7 tables"
    //@ obligation C01 C01.two_p1_boundary.translation_unchanged bounded="concrete pre-state scenario two_p1_boundary; pool of 7 tables"
    //@ obligation C10 C10.two_p1_boundary.repeat_frees_nothing bounded="concrete pre-state scenario two_p1_boundary; pool of 7 tables"
    #[kani::proof]
    #[kani::unwind(513)]
    fn c10_two_p1_boundary() {
        scenario!(
            "two_p1_boundary",
            [tbl(&[(0, F[1] | TBL)]), tbl(&[(0, F[2] | TBL)]), tbl(&[(0, F[3] | TBL), (1, F[4] | TBL)]), EMPTY, tbl(&[(7, 0x7000_0000 | P)]), EMPTY, EMPTY],
            [NOP, (0, 0), (1, 0), (2, 0), (2, 1), NOP, NOP],
            [false, false, false, true, false, false, false],
            [false, false, false, false, false, false, false],
            |m, l| unsafe { m.clean_up_addr_range(Page::range_inclusive(pg(0x1f_f000), pg(0x20_0000)), l) }
        );
    }

    // empty_range: the all-empty chain of chain_p1_span, but start > end: no table overlaps an empty range.
    //@ obligation C10 C10.empty_range.only_empty_overlapping_tables_freed bounded="concrete pre-state scenario empty_range; pool of 7 tables"
    //@ obligation C09 C09.empty_range.only_empty_overlapping_tables_freed bounded="concrete pre-state scenario empty_range; pool of 7 tables"
    //@ obligation C10 C10.empty_range.each_once_after_unlink bounded="concrete pre-state scenario empty_range; pool of 7 tables"
    //@ obligation C10 C10.empty_range.no_empty_table_left_inside_range bounded="concrete pre-state scenario empty_range; pool of 7 tables"
    //@ obligation C10 C10.empty_range.only_parent_slots_of_freed_tables_change bounded="concrete pre-state scenario empty_range; pool of 7 tables"
    //@ obligation C09 C09.empty_range.only_parent_slots_of_freed_tables_change bounded="concrete pre-state scenario empty_range; pool of 7 tables"
    //@ obligation C10 C10.empty_range.translation_unchanged bounded="concrete pre-state scenario empty_range; pool of 7 tables"
    //@ obligation C01 C01.empty_range.translation_unchanged bounded="concrete pre-state scenario empty_range; pool of 7 tables"
    //@ obligation C10 C10.empty_range.repeat_frees_nothing bounded="concrete pre-state scenario empty_range; pool of 7 tables"
    #[kani::proof]
    #[kani::unwind(513)]
    fn c10_empty_range() {
        scenario!(
            "empty_range",
            [tbl(&[(0, F[1] | TBL)]), tbl(&[(0, F[2] | TBL)]), tbl(&[(0, F[3] | TBL)]), EMPTY, EMPTY, EMPTY, EMPTY],
            [NOP, (0, 0), (1, 0), (2, 0), NOP, NOP, NOP],
            [false, false, false, false, false, false, false],
            [false, false, false, false, false, false, false],
            |m, l| unsafe { m.clean_up_addr_range(Page::range_inclusive(pg(0x1000), pg(0)), l) }
        );
    }

    // chain_p1_span: P4[0] -> T1, T1[0] -> T2, T2[0] -> T3, T3 empty; the range is exactly the 2 MiB span of
    // T3. T3 is wholly inside (must go); T2 and T1 then become empty and overlap (may go; the code frees
    // them, bottom-up, each after its child).
    //@ obligation C10 C10.chain_p1_span.only_empty_overlapping_tables_freed tier=thorough bounded="concrete pre-state scenario chain_p1_span; pool of 7 tables"
    //@ obligation C09 C09.chain_p1_span.only_empty_overlapping_tables_freed tier=thorough bounded="concrete pre-state scenario chain_p1_span; pool of 7 tables"
    //@ obligation C10 C10.chain_p1_span.each_once_after_unlink tier=thorough bounded="concrete pre-state scenario chain_p1_span; pool of 7 tables"
    //@ obligation C10 C10.chain_p1_span.no_empty_table_left_inside_range tier=thorough bounded="concrete pre-state scenario chain_p1_span; pool of 7 tables"
    //@ obligation C10 C10.chain_p1_span.only_parent_slots_of_freed_tables_change tier=thorough bounded="concrete pre-state scenario chain_p1_span; pool of 7 tables"
    //@ obligation C09 C09.chain_p1_span.only_parent_slots_of_freed_tables_change tier=thorough bounded="concrete pre-state scenario chain_p1_span; pool of 7 tables"
    //@ obligation C10 C10.chain_p1_span.translation_unchanged tier=thorough bounded="concrete pre-state scenario chain_p1_span; pool of 7 tables"
    //@ obligation C01 C01.chain_p1_span.translation_unchanged tier=thorough bounded="concrete pre-state scenario chain_p1_span; pool of 7 tables"
    //@ obligation C10 C10.chain_p1_span.repeat_frees_nothing tier=thorough bounded="concrete pre-state scenario chain_p1_span; pool of 7 tables"
    #[kani::proof]
    #[kani::unwind(513)]
    fn c10_chain_p1_span() {
        scenario!(
            "chain_p1_span",
            [tbl(&[(0, F[1] | TBL)]), tbl(&[(0, F[2] | TBL)]), tbl(&[(0, F[3] | TBL)]), EMPTY, EMPTY, EMPTY, EMPTY],
            [NOP, (0, 0), (1, 0), (2, 0), NOP, NOP, NOP],
            [false, true, true, true, false, false, false],
            [false, false, false, true, false, false, false],
            |m, l| unsafe { m.clean_up_addr_range(Page::range_inclusive(pg(0), pg(0x1f_f000)), l) }
        );
    }

    // canonical_gap: P4[255] -> T1 (empty level-3 table), P4[256] -> T2 (level-3 table with a 1 GiB page in
    // slot 1). Range = last page of the lower half ..= first page of the upper half: it spans the
    // non-canonical hole. T1 may go; T2 holds an entry (outside the window).
    //@ obligation C10 C10.canonical_gap.only_empty_overlapping_tables_freed tier=thorough bounded="concrete pre-state scenario canonical_gap; pool of 7 tables"
    //@ obligation C09 C09.canonical_gap.only_empty_overlapping_tables_freed tier=thorough bounded="concrete pre-state scenario canonical_gap; pool of 7 tables"
    //@ obligation C10 C10.canonical_gap.each_once_after_unlink tier=thorough bounded="concrete pre-state scenario canonical_gap; pool of 7 tables"
    //@ obligation C10 C10.canonical_gap.no_empty_table_left_inside_range tier=thorough bounded="concrete pre-state scenario canonical_gap; pool of 7 tables"
    //@ obligation C10 C10.canonical_gap.only_parent_slots_of_freed_tables_change tier=thorough bounded="concrete pre-state scenario canonical_gap; pool of 7 tables"
    //@ obligation C09 C09.canonical_gap.only_parent_slots_of_freed_tables_change tier=thorough bounded="concrete pre-state scenario canonical_gap; pool of 7 tables"
    //@ obligation C10 C10.canonical_gap.translation_unchanged tier=thorough bounded="concrete pre-state scenario canonical_gap; pool of 7 tables"
    //@ obligation C01 C01.canonical_gap.translation_unchanged tier=thorough bounded="concrete pre-state scenario canonical_gap; pool of 7 tables"
    //@ obligation C10 C10.canonical_gap.repeat_frees_nothing tier=thorough bounded="concrete pre-state scenario canonical_gap; pool of 7 tables"
    #[kani::proof]
    #[kani::unwind(513)]
    fn c10_canonical_gap() {
        scenario!(
            "canonical_gap",
            [tbl(&[(255, F[1] | TBL), (256, F[2] | TBL)]), EMPTY, tbl(&[(1, 0x4000_0000 | P | PS)]), EMPTY, EMPTY, EMPTY, EMPTY],
            [NOP, (0, 255), (0, 256), NOP, NOP, NOP, NOP],
            [false, true, false, false, false, false, false],
            [false, false, false, false, false, false, false],
            |m, l| unsafe { m.clean_up_addr_range(Page::range_inclusive(pg(0x7fff_ffff_f000), pg(0xffff_8000_0000_0000)), l) }
        );
    }

    // last_page: the all-empty chain through slot 511 of every level; range = the last 2 MiB of the address
    // space (ends at 0xffff_ffff_ffff_f000). T3 must go, T2 and T1 may.
    //@ obligation C10 C10.last_page.only_empty_overlapping_tables_freed tier=thorough bounded="concrete pre-state scenario last_page; pool of 7 tables"
    //@ obligation C09 C09.last_page.only_empty_overlapping_tables_freed tier=thorough bounded="concrete pre-state scenario last_page; pool of 7 tables"
    //@ obligation C10 C10.last_page.each_once_after_unlink tier=thorough bounded="concrete pre-state scenario last_page; pool of 7 tables"
    //@ obligation C10 C10.last_page.no_empty_table_left_inside_range tier=thorough bounded="concrete pre-state scenario last_page; pool of 7 tables"
    //@ obligation C10 C10.last_page.only_parent_slots_of_freed_tables_change tier=thorough bounded="concrete pre-state scenario last_page; pool of 7 tables"
    //@ obligation C09 C09.last_page.only_parent_slots_of_freed_tables_change tier=thorough bounded="concrete pre-state scenario last_page; pool of 7 tables"
    //@ obligation C10 C10.last_page.translation_unchanged tier=thorough bounded="concrete pre-state scenario last_page; pool of 7 tables"
    //@ obligation C01 C01.last_page.translation_unchanged tier=thorough bounded="concrete pre-state scenario last_page; pool of 7 tables"
    //@ obligation C10 C10.last_page.repeat_frees_nothing tier=thorough bounded="concrete pre-state scenario last_page; pool of 7 tables"
    #[kani::proof]
    #[kani::unwind(513)]
    fn c10_last_page() {
        scenario!(
            "last_page",
            [tbl(&[(511, F[1] | TBL)]), tbl(&[(511, F[2] | TBL)]), tbl(&[(511, F[3] | TBL)]), EMPTY, EMPTY, EMPTY, EMPTY],
            [NOP, (0, 511), (1, 511), (2, 511), NOP, NOP, NOP],
            [false, true, true, true, false, false, false],
            [false, false, false, true, false, false, false],
            |m, l| unsafe { m.clean_up_addr_range(Page::range_inclusive(pg(0xffff_ffff_ffe0_0000), pg(0xffff_ffff_ffff_f000)), l) }
        );
    }

    // Not here: `clean_up()` (the whole address space) on P4[0] -> one empty level-3 table. Three
    // 512-iteration entry scans; CBMC alone (no trace output) had produced no verdict after 25 min
    // (5.1 GB). See lib/C10_NOTES.md.
}
