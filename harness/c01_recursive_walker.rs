//@ include-into src/structures/paging/mapper/recursive_page_table.rs
//
// C01 / C02 / C09 building block for RecursivePageTable: `create_next_table` (and its nested
// `inner` fn), the recursive counterpart of PageTableWalker::create_next_table. Complete proof
// over one symbolic entry word, symbolic insert flags and a symbolic allocator answer.
//
// The only raw pointer in this function is `next_table_page.start_address().as_mut_ptr()`.
// To give it a target WITHOUT an MMU model the harness passes, as `next_table_page`, the page whose
// start address is the address of a real 4 KiB-aligned PageTable object of the harness
// (pointer -> u64 -> Page through the unchecked constructors, because CBMC's integer image of a
// pointer carries the object number in its top bits and is not a canonical address). The function
// turns that integer back into the same pointer, so every access it makes to "the next table" is
// an access to that object and is checked by Kani; the second table object detects stray writes.
// What this does NOT cover: that the recursive address computed by p3_page / p2_page / p1_page is
// the address of the right table (C20 proves the address arithmetic; the MMU's translation of it
// is outside a model without an MMU).
//
// PageTable::zero is replaced by its contract (proved in c01_walker.rs:
// c09_page_table_zero_contract) and recorded.

#[cfg(kani)]
mod verif_c01_recursive_walker {
    use super::*;

    const P: u64 = 1;
    const RW: u64 = 1 << 1;
    const PS: u64 = 1 << 7;
    const ADDR: u64 = 0x000f_ffff_ffff_f000;
    /// flag domain of the properties: bits 0..11 and 52..63
    const FLAG_DOMAIN: u64 = 0xfff0_0000_0000_0fff;

    fn entry_from(w: u64) -> PageTableEntry {
        unsafe { core::mem::transmute::<u64, PageTableEntry>(w) }
    }
    fn raw(e: &PageTableEntry) -> u64 {
        unsafe { *(e as *const PageTableEntry as *const u64) }
    }
    fn raw_slot(t: *const PageTable, i: usize) -> u64 {
        raw(unsafe { &(&*t)[i] })
    }
    fn set_raw_slot(t: *mut PageTable, i: usize, w: u64) {
        unsafe { (&mut *t)[i] = entry_from(w) }
    }

    static mut ZERO_CALLS: u32 = 0;
    static mut ZERO_LAST: *const PageTable = core::ptr::null();
    fn zero_stub(t: &mut PageTable) {
        unsafe {
            ZERO_CALLS += 1;
            ZERO_LAST = t as *const PageTable;
        }
        *t = PageTable::new();
    }
    fn zero_calls() -> u32 {
        unsafe { ZERO_CALLS }
    }
    fn zero_last() -> *const PageTable {
        unsafe { ZERO_LAST }
    }

    struct OneAlloc {
        answer: Option<PhysFrame<Size4KiB>>,
        calls: u32,
    }
    unsafe impl FrameAllocator<Size4KiB> for OneAlloc {
        fn allocate_frame(&mut self) -> Option<PhysFrame<Size4KiB>> {
            self.calls += 1;
            self.answer
        }
    }

    /// insert flags: any bits of the flag domain except HUGE_PAGE (C01 quantifier: "parent flags
    /// ... not HUGE_PAGE"); PRESENT is not required here because the recursive mapper adds
    /// PRESENT | WRITABLE itself
    fn any_insert_flags() -> PageTableFlags {
        let f = PageTableFlags::from_bits_truncate(kani::any::<u64>() & FLAG_DOMAIN);
        kani::assume(f.bits() & PS == 0);
        f
    }

    /// the page "at" table object `t` (see header)
    fn page_at(t: *mut PageTable) -> Page {
        unsafe { Page::from_start_address_unchecked(VirtAddr::new_unsafe(t as u64)) }
    }

    struct Setup {
        pa: *mut PageTable,
        pb: *mut PageTable,
        s: usize,
        bg_a: u64,
        bg_b: u64,
    }
    /// table A is the "next table", table B a bystander; each carries one symbolic word
    fn prefill(ta: &mut PageTable, tb: &mut PageTable) -> Setup {
        let s: usize = kani::any();
        kani::assume(s < 512);
        let (bg_a, bg_b): (u64, u64) = (kani::any(), kani::any());
        let pa = ta as *mut PageTable;
        let pb = tb as *mut PageTable;
        set_raw_slot(pa, s, bg_a);
        set_raw_slot(pb, s, bg_b);
        Setup { pa, pb, s, bg_a, bg_b }
    }
    fn untouched(st: &Setup, t: *const PageTable, bg: u64) -> bool {
        let i: usize = kani::any();
        kani::assume(i < 512);
        raw_slot(t, i) == if i == st.s { bg } else { 0 }
    }

    //@ obligation C02 C02.recursive_create_next_table.unused_alloc_none_is_frame_allocation_failed
    //@ obligation C02 C02.recursive_create_next_table.alloc_failure_leaves_entry_unused
    //@ obligation C09 C09.recursive_create_next_table.one_request_iff_unused
    #[kani::proof]
    #[kani::solver(cvc5)]
    #[kani::stub(PageTable::zero, zero_stub)]
    fn c02_recursive_create_next_table_unused_alloc_fails() {
        let mut ta = PageTable::new();
        let mut tb = PageTable::new();
        let st = prefill(&mut ta, &mut tb);
        let mut entry = entry_from(0);
        let flags = any_insert_flags();
        let mut alloc = OneAlloc { answer: None, calls: 0 };
        let r = unsafe { RecursivePageTable::create_next_table::<OneAlloc, Size4KiB>(&mut entry, page_at(st.pa), flags, &mut alloc) }.map(|t| t as *mut PageTable);
        assert!(
            matches!(r, Err(MapToError::FrameAllocationFailed)),
            "C02.recursive_create_next_table.unused_alloc_none_is_frame_allocation_failed: Err(FrameAllocationFailed)"
        );
        assert!(raw(&entry) == 0, "C02.recursive_create_next_table.alloc_failure_leaves_entry_unused: entry still zero");
        assert!(alloc.calls == 1, "C09.recursive_create_next_table.one_request_iff_unused: exactly one request");
        assert!(
            zero_calls() == 0 && untouched(&st, st.pa, st.bg_a) && untouched(&st, st.pb, st.bg_b),
            "C02.recursive_create_next_table.alloc_failure_leaves_entry_unused: tables untouched"
        );
        kani::cover!(true, "c02_recursive_create_next_table_unused_alloc_fails: reachable");
    }

    //@ obligation C01 C01.recursive_create_next_table.unused_entry_becomes_frame_or_present_writable_flags
    //@ obligation C01 C01.recursive_create_next_table.returns_table_at_next_table_page
    //@ obligation C09 C09.recursive_create_next_table.new_table_all_zero_on_return
    //@ obligation C09 C09.recursive_create_next_table.zero_runs_once_on_the_new_table
    //@ obligation C09 C09.recursive_create_next_table.one_request_iff_unused
    //@ obligation C09 C09.recursive_create_next_table.other_table_untouched
    // (default SAT back end here: CBMC's SMT2 back end aborts on this harness, status 6)
    #[kani::proof]
    #[kani::stub(PageTable::zero, zero_stub)]
    fn c09_recursive_create_next_table_unused_alloc_ok() {
        let mut ta = PageTable::new();
        let mut tb = PageTable::new();
        let st = prefill(&mut ta, &mut tb);
        let f: u64 = kani::any();
        kani::assume(f & !ADDR == 0);
        let mut entry = entry_from(0);
        let flags = any_insert_flags();
        let mut alloc = OneAlloc { answer: Some(PhysFrame::from_start_address(PhysAddr::new(f)).unwrap()), calls: 0 };
        let r = unsafe { RecursivePageTable::create_next_table::<OneAlloc, Size4KiB>(&mut entry, page_at(st.pa), flags, &mut alloc) }.map(|t| t as *mut PageTable);
        assert!(r.is_ok(), "C01.recursive_create_next_table.returns_table_at_next_table_page: Ok");
        let t = r.unwrap();
        assert!(
            raw(&entry) == f | P | RW | flags.bits(),
            "C01.recursive_create_next_table.unused_entry_becomes_frame_or_present_writable_flags: entry == frame | PRESENT | WRITABLE | insert_flags"
        );
        assert!(t == st.pa, "C01.recursive_create_next_table.returns_table_at_next_table_page: the table at next_table_page's address");
        assert!(alloc.calls == 1, "C09.recursive_create_next_table.one_request_iff_unused: exactly one request");
        assert!(
            zero_calls() == 1 && zero_last() == st.pa as *const PageTable,
            "C09.recursive_create_next_table.zero_runs_once_on_the_new_table: zero() once, on the returned table"
        );
        let i: usize = kani::any();
        kani::assume(i < 512);
        assert!(raw_slot(t, i) == 0, "C09.recursive_create_next_table.new_table_all_zero_on_return: every word zero");
        assert!(untouched(&st, st.pb, st.bg_b), "C09.recursive_create_next_table.other_table_untouched: the bystander table is not written");
        kani::cover!(true, "c09_recursive_create_next_table_unused_alloc_ok: reachable");
    }

    //@ obligation C01 C01.recursive_create_next_table.existing_entry_flags_added_not_replaced
    //@ obligation C01 C01.recursive_create_next_table.existing_entry_returns_table_at_next_table_page
    //@ obligation C09 C09.recursive_create_next_table.no_request_when_entry_exists
    //@ obligation C09 C09.recursive_create_next_table.existing_table_not_zeroed
    #[kani::proof]
    #[kani::solver(cvc5)]
    #[kani::stub(PageTable::zero, zero_stub)]
    fn c01_recursive_create_next_table_existing_table_entry() {
        let mut ta = PageTable::new();
        let mut tb = PageTable::new();
        let st = prefill(&mut ta, &mut tb);
        let w: u64 = kani::any();
        kani::assume(w != 0 && w & PS == 0); // the crate's notion of an existing entry: any non-zero word (seed C09-r3m3)
        let mut entry = entry_from(w);
        let flags = any_insert_flags();
        let ans: Option<u64> = if kani::any() { Some(kani::any::<u64>() & ADDR) } else { None };
        let mut alloc = OneAlloc { answer: ans.map(|a| PhysFrame::from_start_address(PhysAddr::new(a)).unwrap()), calls: 0 };
        let r = unsafe { RecursivePageTable::create_next_table::<OneAlloc, Size4KiB>(&mut entry, page_at(st.pa), flags, &mut alloc) }.map(|t| t as *mut PageTable);
        assert!(r.is_ok(), "C01.recursive_create_next_table.existing_entry_returns_table_at_next_table_page: Ok");
        assert!(r.unwrap() == st.pa, "C01.recursive_create_next_table.existing_entry_returns_table_at_next_table_page: the table at next_table_page's address");
        assert!(
            raw(&entry) == w | flags.bits() && raw(&entry) & ADDR == w & ADDR,
            "C01.recursive_create_next_table.existing_entry_flags_added_not_replaced: entry == old | insert_flags, address unchanged"
        );
        assert!(alloc.calls == 0, "C09.recursive_create_next_table.no_request_when_entry_exists: allocator not called");
        assert!(
            zero_calls() == 0 && untouched(&st, st.pa, st.bg_a) && untouched(&st, st.pb, st.bg_b),
            "C09.recursive_create_next_table.existing_table_not_zeroed: zero() not called, contents unchanged"
        );
        kani::cover!(true, "c01_recursive_create_next_table_existing_table_entry: reachable");
    }

    //@ obligation C02 C02.recursive_create_next_table.huge_entry_is_parent_entry_huge_page
    //@ obligation C02 C02.recursive_create_next_table.huge_parent_entry_unchanged_on_error
    //@ obligation C09 C09.recursive_create_next_table.no_request_when_entry_exists
    #[kani::proof]
    #[kani::solver(cvc5)]
    #[kani::stub(PageTable::zero, zero_stub)]
    fn c02_recursive_create_next_table_existing_huge_entry() {
        let mut ta = PageTable::new();
        let mut tb = PageTable::new();
        let st = prefill(&mut ta, &mut tb);
        let w: u64 = kani::any();
        kani::assume(w & PS != 0); // PRESENT or not: the word is not zero
        let mut entry = entry_from(w);
        let flags = any_insert_flags();
        let mut alloc = OneAlloc { answer: None, calls: 0 };
        let r = unsafe { RecursivePageTable::create_next_table::<OneAlloc, Size4KiB>(&mut entry, page_at(st.pa), flags, &mut alloc) }.map(|t| t as *mut PageTable);
        assert!(
            matches!(r, Err(MapToError::ParentEntryHugePage)),
            "C02.recursive_create_next_table.huge_entry_is_parent_entry_huge_page: Err(ParentEntryHugePage)"
        );
        assert!(alloc.calls == 0, "C09.recursive_create_next_table.no_request_when_entry_exists: allocator not called");
        assert!(
            zero_calls() == 0 && untouched(&st, st.pa, st.bg_a) && untouched(&st, st.pb, st.bg_b),
            "C02.recursive_create_next_table.huge_entry_is_parent_entry_huge_page: tables untouched (the huge frame is not used as a table)"
        );
        assert!(
            raw(&entry) == w,
            "C02.recursive_create_next_table.huge_parent_entry_unchanged_on_error: leaf word of the enclosing huge page bit-identical after Err"
        );
        kani::cover!(true, "c02_recursive_create_next_table_existing_huge_entry: reachable");
    }
}
