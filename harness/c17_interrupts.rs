//@ include-into src/instructions/interrupts.rs
//
// C17 (sample): are_enabled / enable / disable / enable_and_hlt /
// without_interrupts against the abstract machine. RFLAGS of the machine is
// writable, so both initial IF values are covered by one symbolic state.

#[cfg(kani)]
mod verif_c17_interrupts {
    use super::*;
    use crate::verif_hw::{self, Kind, RFLAGS_IF};

    //@ obligation C17 C17.are_enabled.reads_if
    #[kani::proof]
    fn c17_are_enabled_reads_if() {
        verif_hw::reset_symbolic();
        let fl = verif_hw::m().rflags;
        kani::cover!(true, "c17_are_enabled_reads_if: reachable");
        kani::cover!(fl & RFLAGS_IF != 0, "c17_are_enabled_reads_if: IF set reachable");
        kani::cover!(fl & RFLAGS_IF == 0, "c17_are_enabled_reads_if: IF clear reachable");
        let r = are_enabled();
        let m = verif_hw::m();
        assert!(
            r == (fl & (1 << 9) != 0),
            "C17.are_enabled.reads_if: result == RFLAGS bit 9"
        );
        assert!(m.rflags == fl, "C17.are_enabled.reads_if: RFLAGS unchanged");
        assert!(
            m.only_event_is(Kind::Pushfq, fl, 0, 0),
            "C17.are_enabled.reads_if: one pushfq, nothing else"
        );
    }

    //@ obligation C17 C17.enable.sets_only_if
    #[kani::proof]
    fn c17_enable_sets_only_if() {
        verif_hw::reset_symbolic();
        let fl = verif_hw::m().rflags;
        kani::cover!(true, "c17_enable_sets_only_if: reachable");
        enable();
        let m = verif_hw::m();
        assert!(
            m.rflags == fl | (1 << 9),
            "C17.enable.sets_only_if: IF set, every other bit unchanged"
        );
        assert!(
            m.only_event_is(Kind::Sti, 0, 0, 0),
            "C17.enable.sets_only_if: exactly one sti"
        );
    }

    //@ obligation C17 C17.disable.clears_only_if
    #[kani::proof]
    fn c17_disable_clears_only_if() {
        verif_hw::reset_symbolic();
        let fl = verif_hw::m().rflags;
        kani::cover!(true, "c17_disable_clears_only_if: reachable");
        disable();
        let m = verif_hw::m();
        assert!(
            m.rflags == fl & !(1 << 9),
            "C17.disable.clears_only_if: IF clear, every other bit unchanged"
        );
        assert!(
            m.only_event_is(Kind::Cli, 0, 0, 0),
            "C17.disable.clears_only_if: exactly one cli"
        );
    }

    //@ obligation C17 C17.enable_and_hlt.sti_hlt_one_block
    #[kani::proof]
    fn c17_enable_and_hlt_one_block() {
        verif_hw::reset_symbolic();
        let fl = verif_hw::m().rflags;
        kani::cover!(true, "c17_enable_and_hlt_one_block: reachable");
        enable_and_hlt();
        let m = verif_hw::m();
        assert!(
            m.log_len == 2 && !m.log_overflow && !m.unknown_asm_hit,
            "C17.enable_and_hlt.sti_hlt_one_block: exactly two instructions"
        );
        assert!(
            m.event(0).kind == Kind::Sti && m.event(1).kind == Kind::Hlt,
            "C17.enable_and_hlt.sti_hlt_one_block: sti immediately followed by hlt"
        );
        assert!(
            m.event(0).block == m.event(1).block && m.block_seq == 1,
            "C17.enable_and_hlt.sti_hlt_one_block: both in the same single asm block"
        );
        assert!(
            m.rflags == fl | (1 << 9),
            "C17.enable_and_hlt.sti_hlt_one_block: IF set, other flags unchanged"
        );
    }

    /// The induction step of DESIGN.md C17: f is an arbitrary effect on the
    /// flags that leaves IF as it found it, with a symbolic result.
    //@ obligation C17 C17.without_interrupts.step
    #[kani::proof]
    fn c17_without_interrupts_step() {
        verif_hw::reset_symbolic();
        let before = verif_hw::m().rflags;
        let result: u64 = kani::any();
        let other_flags: u64 = kani::any();
        kani::cover!(true, "c17_without_interrupts_step: reachable");
        kani::cover!(before & RFLAGS_IF != 0, "c17_without_interrupts_step: IF initially set");
        kani::cover!(before & RFLAGS_IF == 0, "c17_without_interrupts_step: IF initially clear");
        let mut calls: u8 = 0;
        let mut if_seen_by_f = true;
        let r = without_interrupts(|| {
            let m = verif_hw::m();
            calls += 1;
            if_seen_by_f = m.rflags & RFLAGS_IF != 0;
            // arbitrary IF-preserving effect
            m.rflags = (other_flags & !RFLAGS_IF) | (m.rflags & RFLAGS_IF);
            result
        });
        let m = verif_hw::m();
        assert!(calls == 1, "C17.without_interrupts.step: f runs exactly once");
        assert!(!if_seen_by_f, "C17.without_interrupts.step: f runs with IF clear");
        assert!(r == result, "C17.without_interrupts.step: the result of f is returned");
        assert!(
            m.rflags & RFLAGS_IF == before & RFLAGS_IF,
            "C17.without_interrupts.step: IF afterwards equals IF before"
        );
        assert!(
            m.rflags & !RFLAGS_IF == other_flags & !RFLAGS_IF,
            "C17.without_interrupts.step: the other flags are as f left them"
        );
        assert!(
            !m.log_overflow && !m.unknown_asm_hit,
            "C17.without_interrupts.step: only known instructions, log not overflown"
        );
        assert!(
            m.count(Kind::Sti) == (before & RFLAGS_IF != 0) as usize
                && m.count(Kind::Cli) == (before & RFLAGS_IF != 0) as usize
                && m.count(Kind::Hlt) == 0,
            "C17.without_interrupts.step: cli/sti pair exactly when IF was set"
        );
    }

    /// Sanity run of the induction: real nesting to depth 3.
    //@ obligation C17 C17.without_interrupts.nested_depth3 bounded="nesting depth 3"
    #[kani::proof]
    fn c17_without_interrupts_nested_depth3() {
        verif_hw::reset_symbolic();
        let before = verif_hw::m().rflags;
        let result: u32 = kani::any();
        kani::cover!(true, "c17_without_interrupts_nested_depth3: reachable");
        let mut inner_if = true;
        let mut inner_calls: u8 = 0;
        let r = without_interrupts(|| {
            without_interrupts(|| {
                without_interrupts(|| {
                    inner_calls += 1;
                    inner_if = verif_hw::m().rflags & RFLAGS_IF != 0;
                    result
                })
            })
        });
        let m = verif_hw::m();
        assert!(
            inner_calls == 1 && !inner_if,
            "C17.without_interrupts.nested_depth3: innermost f runs once with IF clear"
        );
        assert!(r == result, "C17.without_interrupts.nested_depth3: result returned");
        assert!(
            m.rflags == before,
            "C17.without_interrupts.nested_depth3: RFLAGS restored"
        );
        assert!(
            m.count(Kind::Cli) <= 1 && m.count(Kind::Sti) <= 1,
            "C17.without_interrupts.nested_depth3: only the outermost level toggles IF"
        );
    }
}
