//@ include-into src/instructions/interrupts.rs
//
// C17: are_enabled / enable / disable / enable_and_hlt / without_interrupts
// against the abstract machine. RFLAGS of the machine is writable, so both
// initial IF values are covered by one symbolic state (the property's
// `hook_needed`: user-mode pushfq always shows IF = 1; the shim's does not).
// int3 / software_interrupt are not part of the property.

#[cfg(kani)]
mod verif_c17_interrupts {
    use super::*;
    use crate::verif_hw::{self, field, Kind, RFLAGS_IF};

    //@ obligation C17 C17.are_enabled.reads_if
    #[kani::proof]
    fn c17_are_enabled_reads_if() {
        verif_hw::reset_symbolic();
        let before = *verif_hw::m();
        let fl = before.rflags;
        kani::cover!(true, "c17_are_enabled_reads_if: reachable");
        kani::cover!(fl & RFLAGS_IF != 0, "c17_are_enabled_reads_if: IF set reachable");
        kani::cover!(fl & RFLAGS_IF == 0, "c17_are_enabled_reads_if: IF clear reachable");
        let r = are_enabled();
        let m = verif_hw::m();
        assert!(
            r == (fl & (1 << 9) != 0),
            "C17.are_enabled.reads_if: result == RFLAGS bit 9"
        );
        assert!(
            m.rflags == fl && m.regs_same_except(&before, field::NONE),
            "C17.are_enabled.reads_if: RFLAGS and every other register unchanged"
        );
        assert!(
            m.only_event_is(Kind::Pushfq, fl, 0, 0),
            "C17.are_enabled.reads_if: one pushfq, nothing else"
        );
    }

    //@ obligation C17 C17.enable.sets_only_if
    #[kani::proof]
    fn c17_enable_sets_only_if() {
        verif_hw::reset_symbolic();
        let before = *verif_hw::m();
        let fl = before.rflags;
        kani::cover!(true, "c17_enable_sets_only_if: reachable");
        kani::cover!(fl & RFLAGS_IF != 0, "c17_enable_sets_only_if: IF initially set");
        kani::cover!(fl & RFLAGS_IF == 0, "c17_enable_sets_only_if: IF initially clear");
        enable();
        let m = verif_hw::m();
        assert!(
            m.rflags == fl | (1 << 9),
            "C17.enable.sets_only_if: IF set, every other bit unchanged"
        );
        assert!(
            m.regs_same_except(&before, field::RFLAGS),
            "C17.enable.sets_only_if: every other register unchanged"
        );
        assert!(
            m.only_event_is(Kind::Sti, 0, 0, 0) && m.block_seq == 1,
            "C17.enable.sets_only_if: exactly one sti"
        );
    }

    //@ obligation C17 C17.disable.clears_only_if
    #[kani::proof]
    fn c17_disable_clears_only_if() {
        verif_hw::reset_symbolic();
        let before = *verif_hw::m();
        let fl = before.rflags;
        kani::cover!(true, "c17_disable_clears_only_if: reachable");
        kani::cover!(fl & RFLAGS_IF != 0, "c17_disable_clears_only_if: IF initially set");
        kani::cover!(fl & RFLAGS_IF == 0, "c17_disable_clears_only_if: IF initially clear");
        disable();
        let m = verif_hw::m();
        assert!(
            m.rflags == fl & !(1 << 9),
            "C17.disable.clears_only_if: IF clear, every other bit unchanged"
        );
        assert!(
            m.regs_same_except(&before, field::RFLAGS),
            "C17.disable.clears_only_if: every other register unchanged"
        );
        assert!(
            m.only_event_is(Kind::Cli, 0, 0, 0) && m.block_seq == 1,
            "C17.disable.clears_only_if: exactly one cli"
        );
    }

    //@ obligation C17 C17.enable_and_hlt.sti_hlt_one_block
    #[kani::proof]
    fn c17_enable_and_hlt_one_block() {
        verif_hw::reset_symbolic();
        let before = *verif_hw::m();
        let fl = before.rflags;
        kani::cover!(true, "c17_enable_and_hlt_one_block: reachable");
        enable_and_hlt();
        let m = verif_hw::m();
        assert!(
            m.log_len == 2 && !m.log_overflow && !m.unknown_asm_hit,
            "C17.enable_and_hlt.sti_hlt_one_block: exactly two instructions"
        );
        assert!(
            m.event(0).is(Kind::Sti, 0, 0, 0) && m.event(1).is(Kind::Hlt, 0, 0, 0),
            "C17.enable_and_hlt.sti_hlt_one_block: sti immediately followed by hlt"
        );
        assert!(
            m.event(0).block == m.event(1).block && m.block_seq == 1,
            "C17.enable_and_hlt.sti_hlt_one_block: both in the same single asm block"
        );
        assert!(
            m.rflags == fl | (1 << 9) && m.regs_same_except(&before, field::RFLAGS),
            "C17.enable_and_hlt.sti_hlt_one_block: IF set, other flags and registers unchanged"
        );
    }

    /// The INDUCTION STEP of DESIGN.md C17.
    ///
    /// Hypothesis on the closure f (the property's quantifier: "closures that
    /// themselves leave the flag as they found it"): whatever IF value f
    /// finds, it leaves IF at that value; otherwise f is arbitrary: here it
    /// replaces every other RFLAGS bit and another register (CR2 stands for
    /// "any other state") by symbolic values and returns a symbolic result.
    ///
    /// Conclusion about g = || without_interrupts(f), for BOTH initial IF
    /// values: f runs exactly once, with IF clear; g returns f's result; IF
    /// after g equals IF before g. The last clause is exactly the hypothesis,
    /// now about g. So g may be used as the closure of another
    /// without_interrupts call, and by induction on the nesting depth the
    /// conclusion holds for every depth (and, since the hypothesis is closed
    /// under sequential composition, for every branching). The harnesses
    /// below run real nestings to depth 3 as a sanity check of that argument.
    //@ obligation C17 C17.without_interrupts.step
    #[kani::proof]
    fn c17_without_interrupts_step() {
        verif_hw::reset_symbolic();
        let before_m = *verif_hw::m();
        let before = before_m.rflags;
        let was_set = before & RFLAGS_IF != 0;
        let result: u64 = kani::any();
        let other_flags: u64 = kani::any();
        let other_state: u64 = kani::any();
        kani::cover!(true, "c17_without_interrupts_step: reachable");
        kani::cover!(was_set, "c17_without_interrupts_step: IF initially set");
        kani::cover!(!was_set, "c17_without_interrupts_step: IF initially clear");
        let mut calls: u8 = 0;
        let mut if_seen_by_f = true;
        let mut events_before_f: usize = 0;
        let mut cli_before_f: usize = 0;
        let mut sti_before_f: usize = 0;
        let r = without_interrupts(|| {
            let m = verif_hw::m();
            calls += 1;
            if_seen_by_f = m.rflags & RFLAGS_IF != 0;
            events_before_f = m.log_len;
            cli_before_f = m.count(Kind::Cli);
            sti_before_f = m.count(Kind::Sti);
            // arbitrary IF-preserving effect
            m.rflags = (other_flags & !RFLAGS_IF) | (m.rflags & RFLAGS_IF);
            m.cr2 = other_state;
            result
        });
        let m = verif_hw::m();
        assert!(calls == 1, "C17.without_interrupts.step: f runs exactly once");
        assert!(!if_seen_by_f, "C17.without_interrupts.step: f runs with IF clear");
        assert!(r == result, "C17.without_interrupts.step: the result of f is returned");
        assert!(
            m.rflags & RFLAGS_IF == before & RFLAGS_IF,
            "C17.without_interrupts.step: IF afterwards equals IF before"
        );
        assert!(
            m.rflags & !RFLAGS_IF == other_flags & !RFLAGS_IF,
            "C17.without_interrupts.step: the other flags are as f left them"
        );
        assert!(
            m.cr2 == other_state && m.regs_same_except(&before_m, field::RFLAGS | field::CR2),
            "C17.without_interrupts.step: other state is as f left it, everything else unchanged"
        );
        assert!(
            !m.log_overflow && !m.unknown_asm_hit,
            "C17.without_interrupts.step: only known instructions, log not overflown"
        );
        assert!(
            m.count(Kind::Sti) == was_set as usize
                && m.count(Kind::Cli) == was_set as usize
                && m.count(Kind::Hlt) == 0,
            "C17.without_interrupts.step: cli/sti pair exactly when IF was set"
        );
        assert!(
            m.event(0).is(Kind::Pushfq, before, 0, 0)
                && cli_before_f == was_set as usize
                && sti_before_f == 0
                && events_before_f == 1 + was_set as usize
                && m.log_len == 1 + 2 * (was_set as usize)
                && (!was_set || (m.event(1).kind == Kind::Cli && m.event(2).kind == Kind::Sti)),
            "C17.without_interrupts.step: order is read flags, (cli), f, (sti) and nothing else"
        );
    }

    /// The step also covers a closure that runs instructions itself (here: a
    /// real inner without_interrupts around an arbitrary IF-preserving effect),
    /// i.e. one unfolding of the induction, checked directly.
    //@ obligation C17 C17.without_interrupts.nested_depth2 bounded="nesting depth 2"
    #[kani::proof]
    fn c17_without_interrupts_nested_depth2() {
        verif_hw::reset_symbolic();
        let before_m = *verif_hw::m();
        let before = before_m.rflags;
        let was_set = before & RFLAGS_IF != 0;
        let result: u16 = kani::any();
        let other_flags: u64 = kani::any();
        kani::cover!(true, "c17_without_interrupts_nested_depth2: reachable");
        kani::cover!(was_set, "c17_without_interrupts_nested_depth2: IF initially set");
        kani::cover!(!was_set, "c17_without_interrupts_nested_depth2: IF initially clear");
        let mut outer_calls: u8 = 0;
        let mut outer_if = true;
        let mut inner_calls: u8 = 0;
        let mut inner_if = true;
        let r = without_interrupts(|| {
            outer_calls += 1;
            outer_if = verif_hw::m().rflags & RFLAGS_IF != 0;
            let x = without_interrupts(|| {
                let m = verif_hw::m();
                inner_calls += 1;
                inner_if = m.rflags & RFLAGS_IF != 0;
                m.rflags = (other_flags & !RFLAGS_IF) | (m.rflags & RFLAGS_IF);
                result
            });
            // still disabled after the inner call returned
            outer_if = outer_if || verif_hw::m().rflags & RFLAGS_IF != 0;
            x
        });
        let m = verif_hw::m();
        assert!(
            outer_calls == 1 && inner_calls == 1,
            "C17.without_interrupts.nested_depth2: each closure runs exactly once"
        );
        assert!(
            !outer_if && !inner_if,
            "C17.without_interrupts.nested_depth2: IF is clear in both closures, also after the inner call returned"
        );
        assert!(r == result, "C17.without_interrupts.nested_depth2: result returned");
        assert!(
            m.rflags == (other_flags & !RFLAGS_IF) | (before & RFLAGS_IF)
                && m.regs_same_except(&before_m, field::RFLAGS),
            "C17.without_interrupts.nested_depth2: IF as before, other flags as f left them, nothing else changed"
        );
        assert!(
            m.count(Kind::Cli) == was_set as usize
                && m.count(Kind::Sti) == was_set as usize
                && m.count(Kind::Pushfq) == 2
                && m.log_len == 2 + 2 * (was_set as usize)
                && !m.log_overflow
                && !m.unknown_asm_hit,
            "C17.without_interrupts.nested_depth2: only the outermost level toggles IF"
        );
    }

    /// Sanity run of the induction: real nesting to depth 3.
    //@ obligation C17 C17.without_interrupts.nested_depth3 bounded="nesting depth 3"
    #[kani::proof]
    fn c17_without_interrupts_nested_depth3() {
        verif_hw::reset_symbolic();
        let before_m = *verif_hw::m();
        let before = before_m.rflags;
        let was_set = before & RFLAGS_IF != 0;
        let result: u32 = kani::any();
        kani::cover!(true, "c17_without_interrupts_nested_depth3: reachable");
        kani::cover!(was_set, "c17_without_interrupts_nested_depth3: IF initially set");
        kani::cover!(!was_set, "c17_without_interrupts_nested_depth3: IF initially clear");
        let mut inner_if = true;
        let mut inner_calls: u8 = 0;
        let mut mid_calls: u8 = 0;
        let mut outer_calls: u8 = 0;
        let r = without_interrupts(|| {
            outer_calls += 1;
            without_interrupts(|| {
                mid_calls += 1;
                without_interrupts(|| {
                    inner_calls += 1;
                    inner_if = verif_hw::m().rflags & RFLAGS_IF != 0;
                    result
                })
            })
        });
        let m = verif_hw::m();
        assert!(
            inner_calls == 1 && mid_calls == 1 && outer_calls == 1 && !inner_if,
            "C17.without_interrupts.nested_depth3: every closure runs once, the innermost with IF clear"
        );
        assert!(r == result, "C17.without_interrupts.nested_depth3: result returned");
        assert!(
            m.rflags == before && m.regs_same_except(&before_m, field::NONE),
            "C17.without_interrupts.nested_depth3: RFLAGS restored, nothing else changed"
        );
        assert!(
            m.count(Kind::Cli) == was_set as usize
                && m.count(Kind::Sti) == was_set as usize
                && m.count(Kind::Pushfq) == 3
                && m.log_len == 3 + 2 * (was_set as usize)
                && !m.log_overflow
                && !m.unknown_asm_hit,
            "C17.without_interrupts.nested_depth3: only the outermost level toggles IF"
        );
    }

    /// Branching: two without_interrupts calls in sequence inside one.
    //@ obligation C17 C17.without_interrupts.nested_branching2 bounded="depth 2, two inner calls in sequence"
    #[kani::proof]
    fn c17_without_interrupts_nested_branching2() {
        verif_hw::reset_symbolic();
        let before_m = *verif_hw::m();
        let before = before_m.rflags;
        let was_set = before & RFLAGS_IF != 0;
        let a: u8 = kani::any();
        let b: u8 = kani::any();
        kani::cover!(true, "c17_without_interrupts_nested_branching2: reachable");
        kani::cover!(was_set, "c17_without_interrupts_nested_branching2: IF initially set");
        kani::cover!(!was_set, "c17_without_interrupts_nested_branching2: IF initially clear");
        let mut calls: (u8, u8) = (0, 0);
        let mut any_if_seen = false;
        let r = without_interrupts(|| {
            let x = without_interrupts(|| {
                calls.0 += 1;
                any_if_seen |= verif_hw::m().rflags & RFLAGS_IF != 0;
                a
            });
            any_if_seen |= verif_hw::m().rflags & RFLAGS_IF != 0;
            let y = without_interrupts(|| {
                calls.1 += 1;
                any_if_seen |= verif_hw::m().rflags & RFLAGS_IF != 0;
                b
            });
            (x, y)
        });
        let m = verif_hw::m();
        assert!(
            calls == (1, 1) && !any_if_seen,
            "C17.without_interrupts.nested_branching2: both inner closures run once; IF is clear in them and between them"
        );
        assert!(r == (a, b), "C17.without_interrupts.nested_branching2: results returned");
        assert!(
            m.rflags == before && m.regs_same_except(&before_m, field::NONE),
            "C17.without_interrupts.nested_branching2: RFLAGS restored, nothing else changed"
        );
        assert!(
            m.count(Kind::Cli) == was_set as usize
                && m.count(Kind::Sti) == was_set as usize
                && m.log_len == 3 + 2 * (was_set as usize)
                && !m.log_overflow
                && !m.unknown_asm_hit,
            "C17.without_interrupts.nested_branching2: only the outermost level toggles IF"
        );
    }
}
