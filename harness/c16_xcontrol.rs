//@ include-into src/registers/xcontrol.rs
//
// C16: XCR0 wrappers against the abstract machine. The mask and the validity
// rules are written from the SDM (vol. 1 13.3) / the flag documentation, not
// taken from the crate.

#[cfg(kani)]
mod verif_c16_xcontrol {
    use super::*;
    use crate::verif_hw::{self, field, Kind};

    /// XCR0 bits 0-7 (x87, SSE, AVX, BNDREG, BNDCSR, opmask, ZMM_Hi256, Hi16_ZMM), 9 (PKRU), 62 (LWP).
    const XCR0_MODELLED: u64 = 0x4000_0000_0000_02FF;

    const X87: u64 = 1;
    const SSE: u64 = 1 << 1;
    const AVX: u64 = 1 << 2;
    const MPX: u64 = 3 << 3;
    const AVX512: u64 = 7 << 5;

    /// The combinations XCr0::write documents as accepted ("Panics if invalid
    /// combinations of XCr0Flags are set"; the rules are on the flags):
    /// x87 must be set; AVX needs SSE; BNDREG and BNDCSR together; opmask,
    /// ZMM_Hi256, Hi16_ZMM together and only with AVX.
    fn xcr0_valid(b: u64) -> bool {
        b & X87 != 0
            && (b & AVX == 0 || b & SSE != 0)
            && (b & MPX == 0 || b & MPX == MPX)
            && (b & AVX512 == 0 || (b & AVX512 == AVX512 && b & AVX != 0))
    }

    fn lo(v: u64) -> u64 {
        v & 0xffff_ffff
    }
    fn hi(v: u64) -> u64 {
        v >> 32
    }

    /// Marker of C19_NOTES.md: reaching it is a failed check of class
    /// `unreachable`, which a should_panic harness does not tolerate.
    #[inline(never)]
    fn returned_on_invalid_input() {
        unsafe { core::hint::unreachable_unchecked() }
    }

    //@ obligation C16 C16.XCr0_read.truncated_raw
    //@ obligation C16 C16.XCr0_read_raw.edx_eax_of_xcr0
    #[kani::proof]
    fn c16_xcr0_read_truncated_raw() {
        verif_hw::reset_symbolic();
        let before = *verif_hw::m();
        let old = before.xcr0;
        kani::cover!(true, "c16_xcr0_read_truncated_raw: reachable");
        let r = XCr0::read();
        {
            let m = verif_hw::m();
            assert!(
                r.bits() == old & XCR0_MODELLED,
                "C16.XCr0_read.truncated_raw: typed read == raw & MODELLED"
            );
            assert!(
                m.only_event_is(Kind::Xgetbv, 0, lo(old), hi(old)) && m.regs_same_except(&before, field::NONE),
                "C16.XCr0_read.truncated_raw: exactly one xgetbv with ecx == 0, no register changes"
            );
        }
        let raw = XCr0::read_raw();
        let m = verif_hw::m();
        assert!(
            raw == old,
            "C16.XCr0_read_raw.edx_eax_of_xcr0: result == (edx << 32) | eax of XCR0, all 64 bits"
        );
        assert!(
            m.only_events_are((Kind::Xgetbv, 0, lo(old), hi(old)), (Kind::Xgetbv, 0, lo(old), hi(old)))
                && m.regs_same_except(&before, field::NONE),
            "C16.XCr0_read_raw.edx_eax_of_xcr0: exactly one xgetbv with ecx == 0, no register changes"
        );
    }

    //@ obligation C16 C16.XCr0_write_raw.stores_exactly
    #[kani::proof]
    fn c16_xcr0_write_raw_stores_exactly() {
        verif_hw::reset_symbolic();
        let before = *verif_hw::m();
        let v: u64 = kani::any();
        kani::cover!(true, "c16_xcr0_write_raw_stores_exactly: reachable");
        unsafe { XCr0::write_raw(v) };
        let m = verif_hw::m();
        assert!(m.xcr0 == v, "C16.XCr0_write_raw.stores_exactly: xcr0 == value");
        assert!(
            m.only_event_is(Kind::Xsetbv, 0, lo(v), hi(v)),
            "C16.XCr0_write_raw.stores_exactly: exactly one xsetbv, ecx == 0, eax low half, edx high half"
        );
        assert!(
            m.regs_same_except(&before, field::XCR0),
            "C16.XCr0_write_raw.stores_exactly: no other register changes"
        );
    }

    //@ obligation C16 C16.XCr0_write.valid_preserves_unmodelled
    #[kani::proof]
    fn c16_xcr0_write_valid_preserves_unmodelled() {
        verif_hw::reset_symbolic();
        let before = *verif_hw::m();
        let old = before.xcr0;
        let flags = XCr0Flags::from_bits_retain(kani::any::<u64>() & XCR0_MODELLED);
        kani::assume(xcr0_valid(flags.bits()));
        kani::cover!(true, "c16_xcr0_write_valid_preserves_unmodelled: reachable");
        unsafe { XCr0::write(flags) };
        let expect = (old & !XCR0_MODELLED) | flags.bits();
        {
            let m = verif_hw::m();
            assert!(
                m.xcr0 == expect,
                "C16.XCr0_write.valid_preserves_unmodelled: new == (old & !MODELLED) | flags, no panic"
            );
            assert!(
                m.only_events_are((Kind::Xgetbv, 0, lo(old), hi(old)), (Kind::Xsetbv, 0, lo(expect), hi(expect))),
                "C16.XCr0_write.valid_preserves_unmodelled: one xgetbv, then exactly one xsetbv, ecx == 0"
            );
            assert!(
                m.regs_same_except(&before, field::XCR0),
                "C16.XCr0_write.valid_preserves_unmodelled: no other register changes"
            );
        }
        assert!(
            XCr0::read() == flags,
            "C16.XCr0_write.valid_preserves_unmodelled: the next typed read returns the flags written"
        );
    }

    /// "Rejected without writing": for EVERY invalid flag set XCr0::write
    /// panics (no path returns: marker), and no xsetbv executes before the
    /// panic (write trap of verif_hw: reaching xsetbv is a non-panic failure,
    /// which should_panic does not tolerate). The xgetbv that reads the old
    /// value does execute first; a read is not a write.
    //@ obligation C16 C16.XCr0_write.invalid_panics_before_xsetbv
    #[kani::proof]
    #[kani::should_panic]
    fn c16_xcr0_write_invalid_panics_before_xsetbv() {
        verif_hw::reset_symbolic();
        verif_hw::set_trap(Kind::Xsetbv);
        let flags = XCr0Flags::from_bits_retain(kani::any::<u64>() & XCR0_MODELLED);
        kani::assume(!xcr0_valid(flags.bits()));
        kani::cover!(true, "c16_xcr0_write_invalid_panics_before_xsetbv: reachable");
        unsafe { XCr0::write(flags) };
        returned_on_invalid_input();
    }

    //@ obligation C16 C16.XCr0_update.read_f_write
    #[kani::proof]
    fn c16_xcr0_update_read_f_write() {
        verif_hw::reset_symbolic();
        let before = *verif_hw::m();
        let old = before.xcr0;
        let chosen = XCr0Flags::from_bits_retain(kani::any::<u64>() & XCR0_MODELLED);
        kani::assume(xcr0_valid(chosen.bits()));
        kani::cover!(true, "c16_xcr0_update_read_f_write: reachable");
        let mut calls: u8 = 0;
        let mut seen: u64 = 0;
        let mut writes_before_f: usize = 0;
        unsafe {
            XCr0::update(|f| {
                calls += 1;
                seen = f.bits();
                writes_before_f = verif_hw::count(Kind::Xsetbv);
                *f = chosen;
            })
        };
        let m = verif_hw::m();
        let expect = (old & !XCR0_MODELLED) | chosen.bits();
        assert!(calls == 1, "C16.XCr0_update.read_f_write: f runs exactly once");
        assert!(
            seen == old & XCR0_MODELLED,
            "C16.XCr0_update.read_f_write: f sees the typed read of the old value"
        );
        assert!(writes_before_f == 0, "C16.XCr0_update.read_f_write: nothing is written before f ran");
        assert!(m.xcr0 == expect, "C16.XCr0_update.read_f_write: the result of f is written like XCr0::write");
        assert!(
            m.log_len == 3
                && !m.log_overflow
                && !m.unknown_asm_hit
                && m.event(0).is(Kind::Xgetbv, 0, lo(old), hi(old))
                && m.event(1).is(Kind::Xgetbv, 0, lo(old), hi(old))
                && m.event(2).is(Kind::Xsetbv, 0, lo(expect), hi(expect))
                && m.regs_same_except(&before, field::XCR0),
            "C16.XCr0_update.read_f_write: reads, then exactly one xsetbv, nothing else changes"
        );
    }

    //@ obligation C16 C16.XCr0_update.invalid_panics_before_xsetbv
    #[kani::proof]
    #[kani::should_panic]
    fn c16_xcr0_update_invalid_panics_before_xsetbv() {
        verif_hw::reset_symbolic();
        verif_hw::set_trap(Kind::Xsetbv);
        let chosen = XCr0Flags::from_bits_retain(kani::any::<u64>() & XCR0_MODELLED);
        kani::assume(!xcr0_valid(chosen.bits()));
        kani::cover!(true, "c16_xcr0_update_invalid_panics_before_xsetbv: reachable");
        unsafe { XCr0::update(|f| *f = chosen) };
        returned_on_invalid_input();
    }
}
