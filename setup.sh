#!/bin/bash
# Offline setup: nothing to download. Warm the Kani target dir so the first check does not pay the dependency build.
set -e
cd "$(dirname "$0")"
mkdir -p .cache out evidence
python3 - <<'PY'
import sys, os
sys.path.insert(0, 'lib')
import stage, kani_run
dest = '/var/tmp/verif-%d-setup' % os.getpid()
try:
    info = stage.stage(dest)
    names = sorted(info['harnesses'])[:1]
    res = kani_run.run_harnesses(dest, names, jobs=4, timeout_s=600)
    print('warm-up:', {k: v.get('status') for k, v in res.items() if not k.startswith('_')})
finally:
    stage.unstage(dest)
PY
verus --version >/dev/null
echo setup ok
